#!/usr/bin/env python3
# Generates /verif/MANIFEST.json from the table below (kept in one place so the
# manifest is always schema-valid).
import json, subprocess
props = [json.loads(l) for l in open('/verif/properties.jsonl')]
claimed = {
 'C01': dict(tech='contract-based deductive verification: sender contracts over ghost transport and output streams (wire bytes, open-message flag), writer interface contracts, VCs from go/ssa, z3/cvc5',
             text='Proved for all inputs: each packet handed to the transport has header length 8 + len(body) in big-endian at bytes 2..3, the channel message type and id, the end-of-message flag exactly when its body is shorter than the body size in force, and its bytes are appended to the wire with the earlier bytes untouched; a successful flush leaves no message open, i.e. the last packet written carries the end-of-message flag for every total length including exact multiples of the packet body size; every package, format and data writer only appends to the output stream it is given. Proof level for these per-function statements.',
             note='Also proved: packets leave in stream order without gaps or repeats (the ghost transmit position equals the position of the first queued byte after every entry point; a successful flush has sent the whole queued stream and empties the queue). Unclaimed: the explicit assumption that the packet size does not change while packets are queued (pre[sendPackets/size-tie]) and one content clause of the queue invariant at the deferred discard. Assumes the io.Writer contract, one sender per channel, structurally valid client-built packages. A genuine defect (no end-of-message packet for messages that are exact multiples of the body size) was repaired, see known_findings.txt.',
             ref='3 C01'),
 'C02': dict(tech='contract-based deductive verification: packet reader contracts over a ghost transport byte stream (any Read sizes), loop invariants with cuts, VCs from go/ssa, z3/cvc5',
             text='Proved for every partition of the transport byte stream into Read results: PacketHeader.ReadFrom consumes exactly 8 bytes, decodes them as the big-endian header and fails only if the transport failed; Packet.ReadFrom consumes exactly Header.Length bytes and its body equals the following Length-8 stream bytes in order; WritePacket/tryParsePackage keep the receive queue position valid across failed parse attempts. Together with the queue view (C15) and the parser clause (C07) this makes each delivered package a function of the byte stream only. Proof level for these per-function statements.',
             note='The relational end-to-end statement (two packetisations of one response deliver the same package sequence) is not itself mechanised, and the reader goroutine Conn.ReadFrom is outside the generator (maps of pointers, goroutines). A genuine defect (packet header split over two reads reported as an error) was repaired, see known_findings.txt.',
             ref='3 C02'),
 'C11': dict(tech='contract-based deductive verification: ghost invocation counters on the hook dispatchers, filter postconditions and send-site obligations, VCs from go/ssa, z3/cvc5',
             text='Proved for any number of registered hooks: each dispatcher call invokes every registered hook exactly once; a non-informational server message reaches every message hook exactly once and is then passed on, an informational message reaches no hook and is never passed on, environment changes are consumed and never delivered as packages, and a packet size is applied only if it fits the packet header. Proof level for these per-function statements.',
             note='Also proved: NextPackageUntil returns a package together with an error only for the callback\'s own bare io.EOF, handed back unchanged. Not mechanised: the rest of the error aggregation in NextPackageUntil (all messages so far, in order, wrapping the callback error), the nonlinear per-member hook count, registration concurrent with a response.',
             ref='3 C11'),
 'C12': dict(tech='contract-based deductive verification of the sequential contracts of channel creation and packet stamping (VCs from go/ssa, z3/cvc5); interleavings are outside the technique',
             text='Proved for single calls: a new channel gets an id in 0..65535 that was not a key of the channel map, is wired to its connection with well-formed queues, and a logical channel is reported as set up only after a header-only acknowledgement arrived; outgoing packets of a logical channel carry its id and consecutive packet numbers modulo 256. Proof level for these sequential per-function statements only.',
             note='The property quantifies over interleavings and demands race freedom; a deductive verifier without a concurrency model cannot decide that part, and the routing lookup in Conn.ReadFrom (map of pointers, goroutine) is outside the generator. A genuine defect (setup acknowledgement never recognised) was repaired.',
             ref='3 C12'),
 'C13': dict(tech='contract-based deductive verification of the closed-state postconditions of the channel entry points (VCs from go/ssa, z3/cvc5); blocking and time are outside the technique',
             text='Proved for single calls: every entry point of a closed channel returns an error matching ErrChannelClosed, delivers nothing and leaves wire and queues untouched; nothing is put on the package channel of a closed channel; Close closes the package channel exactly once; every receive NextPackageUntil performs, its drains included, waits on the caller\'s context. Proof level for these sequential per-function statements only.',
             note='Never-blocks, promptness after cancellation and bounded-time Close are liveness/timing statements over goroutine schedules and are not decided. A genuine defect (second Close panics) was repaired.',
             ref='3 C13'),
 'C14': dict(tech='contract-based deductive verification: error-path postconditions of the packet reader over a ghost transport stream with a failure flag, VCs from go/ssa, z3/cvc5',
             text='Proved for every failure offset and every Read partition: Packet.ReadFrom returns nil, or an error matching io.EOF, only together with a complete packet whose body equals the stream bytes; any other return is an error that occurs only if the transport failed or the context is done; a partial header is never reported as io.EOF. Hence the dispatcher, which forwards a packet only on nil or io.EOF, never forwards incomplete data; incomplete package data inside complete packets is reported as ErrNotEnoughBytes (C07). Proof level for these per-function statements.',
             note='Time bounds (read timeout) and the absence of a spurious final DONE after a failure are whole-history statements over the reader goroutine and are not mechanised; Conn.ReadFrom itself is outside the generator (maps of pointers, goroutines).',
             ref='3 C14'),
 'C03': dict(tech='contract-based deductive verification: send-site obligations (onsend / channel invariant) on the receive dispatcher and reply-script ghosts on the consumer functions, VCs from go/ssa, z3/cvc5',
             text='Proved for all queue states: the receive path hands the consumer only completely parsed packages or the synthetic final DONE; the synthetic DONE is created only at the end of a message that carried the end-of-message flag and only if the last delivered package was not already a final DONE; isDoneFinal is exactly DONE with status 0; NextPackage and NextPackageUntil return the last package they consumed; with a nil callback and after a callback error other than io.EOF NextPackageUntil returns only after a final DONE was consumed or a receive failed (the response is drained). Proof level for these per-function statements.',
             note='Exactly-once delivery across several request/response rounds and the interaction with Reset are whole-history statements that the contracts cannot express here (closures, goroutines); they are not mechanised.',
             ref='3 C03'),
 'C08': dict(tech='contract-based deductive verification: postconditions of Login over a ghost reply script maintained by the NextPackage contract, VCs from go/ssa, z3/cvc5',
             text='Proved for every reply script: Login returns success in the plain flow only for LOGINACK(SUCCEED) followed by DONE(final), and in the encrypted flow only for a script that starts LOGINACK(NEGOTIATE), MSG(ENCRYPT4), PARAMFMT, PARAMS, DONE and ends CAPABILITY, DONE(final); weaker encryption methods are rejected; the acknowledgement filter accepts exactly LOGINACK(SUCCEED); an announced packet size is taken over only if 8 < size <= 65535. Proof level for these per-function statements (the only-if direction of the property).',
             note='The if direction (a valid acceptance always yields success), timing (context expiry) and the cryptographic steps are not mechanised. Two genuine defects were repaired (non-final DONE accepted; unvalidated packet size).',
             ref='3 C08'),
 'C09': dict(tech='contract-based deductive verification: byte-level layout contract of the login record over a ghost buffer stream, VCs from go/ssa, z3/cvc5',
             text='Proved for all passwords, names and configurations: with an encrypting message id configured the password slot of the login record (value bytes and length byte) is all zero, the remote-server password slot is zero in every configuration, oversized fields are rejected and never truncated or shifted; the plain flow puts the password into the slot (control). Proof level for the login-record half of the property.',
             note='The other half (what is sent instead decrypts under the server key with fresh randomness; no password in error texts) depends on crypto/rsa, crypto/rand and fmt and is not mechanised; it is not claimed.',
             ref='3 C09'),
 'C04': dict(cat='other', tech='contract-based deductive verification of decoder safety and stream discipline (VCs from go/ssa, z3/cvc5); bounded exhaustive execution (labelled bounded) for the value round trips, which go through encoding/binary, math/big and time',
             text='Proved for all inputs: the decoders never index or slice outside the byte string for any length the format admits, field readers report a dry stream as ErrNotEnoughBytes, field writers only append; for MONEY the encoder and decoder contracts plus two arithmetic lemmas prove decode(encode(x)) == x for every int64 count; NULL encodes to zero length. The value-level statement (decode(encode(v)) == v for every data type, exactly or to the tick, NULL as zero length, also inside parameter packages) is decided only on a stated finite domain by executing the real codec against an independent reference; that part is bounded, not proved.',
             note='Bounded domain: see evidence coverage.bounded (all 8/16-bit integers, boundary and seeded 32/64-bit patterns, float bit patterns, money, decimals of every precision, every (third) day of years 1..9999, sampled ticks, strings over all planes). BLOB is excluded by the property.',
             ref='3 C04'),
 'C05': dict(cat='other', tech='contract-based deductive verification of decoder safety (VCs from go/ssa, z3/cvc5); bounded exhaustive comparison with an independently written reference codec (labelled bounded)',
             text='Proved for all inputs: decoder safety and the MONEY layout (high word then low word, little-endian bytes) in both directions. The remaining layout statements (little-endian integers and floats, money high word first, numeric sign plus big-endian magnitude, day / tick / minute / microsecond counts from their epochs, UTF-16LE, calendar helpers equal to the proleptic Gregorian calendar and inverse to each other) are decided on a stated finite domain by executing the real functions against a reference codec written from the property text; for the calendar helpers the domain is the whole of years 1..9999 in the thorough tier. Bounded, not proved.',
             note='The reference codec is trusted. encoding/binary, math/big and time cannot be brought under contract by the generator, hence no unbounded claim for the layouts.',
             ref='3 C05'),
 'C06': dict(tech='contract-based deductive verification: length-field postconditions of the package writers over the ghost output stream, login record layout contract (VCs from go/ssa, z3/cvc5); bounded execution (labelled bounded) for read-back equality',
             text='Proved for all field values that fit the width of the length field: the length written after the token equals the number of bytes that follow it for the cursor packages, EED, ERROR, OPTIONCMD, LANGUAGE and MSG; DONE has its fixed size; the login record has its fixed layout and rejects oversized fields instead of truncating or shifting them. Read-back equality (ReadFrom(WriteTo(p)) == p, bytes consumed exactly) is decided on a stated finite domain by executing the real code; that part is bounded, not proved.',
             note='Unclaimed: the length clauses of ENVCHANGE, LOGINACK and CAPABILITY. Server-only packages the library cannot write have no read-back inside the library. Three genuine defects were repaired (EED length field, ERROR state/class bytes, RETURNSTATUS token).',
             ref='3 C06'),
 'C07': dict(tech='contract-based deductive verification: interface contract on Package/FieldFmt/FieldData.ReadFrom over a ghost byte stream, VCs from go/ssa, z3/cvc5',
             text='Every parser implementation is proved, for all inputs and loop iterations, to return an error matching ErrNotEnoughBytes whenever the abstract stream ran dry during the call, and to leave the dry flag unchanged on success. Proof level because the claim is a per-function postcondition that the VC generator discharges without bounds.',
             note='Assumes the BytesChannel contract (stream semantics) for the channel passed in, closed world of FieldFmt/FieldData/Package implementations, sentinel error variables never reassigned, integers modelled mathematically with explicit wrap, goroutines not modelled. Re-parse after rollback (fresh package per attempt) is part of C02.',
             ref='3 C07'),
 'C15': dict(tech='contract-based deductive verification: representation invariant of PacketQueue against an abstract byte stream (ghost view), loop invariants with cuts, VCs from go/ssa, z3/cvc5',
             text='Every PacketQueue method is proved against its contract over the abstract stream view: reads return exactly the next bytes across packet boundaries (typed reads with little-endian composition), a failed read reports ErrNotEnoughBytes, AddPacket/Discard/SetPosition/Reset keep the representation invariant and the unread bytes, Read fills the caller buffer, writes append to the output stream in packets of the current size. Proof level: per-method pre/postconditions and invariants, unbounded in sizes and iteration counts.',
             note='Assumes one goroutine per queue, a queue used under one discipline (read or write), the packet-size function contract (range 9..65535, see C08), no aliasing between caller buffers and queued packet bodies. Obligations above the per-tier claim threshold are listed as unclaimed in the evidence (WriteBytes content clause at the loop exit).',
             ref='3 C15'),
 'C16': dict(tech='contract-based deductive verification for construction, error propagation and slicing safety (VCs from go/ssa, z3/cvc5); bounded exhaustive execution (labelled bounded) for the digit-level claims',
             text='Proved for all inputs: NewDecimal/sanity succeed exactly for 0 <= scale <= precision <= 38, NewDecimalString propagates both errors and returns nil on error, String never slices outside its digit string for a well-formed decimal, SetString leaves the decimal unchanged on error. The digit-level statements (exact expansion, canonical text, parse(format(d)) == d, rejection of unrepresentable numerals) are decided only on a stated finite domain by executing the real functions against math/big.Rat; that part is bounded, not proved.',
             note='Bounded part: all 741 (precision, scale) pairs, boundary values {0, 1, 7, 10^k, 10^k-1}, both signs, with/without spaces, leading and trailing zeros; other digit strings are not covered. Library contracts (math/big, strings, fmt width padding) are assumed. Two genuine defects were repaired (negative scale; SetString accepting unrepresentable numerals).',
             ref='3 C16'),
 'C17': dict(tech='contract-based deductive verification of panic freedom (index, slice, nil, type assertion obligations over go/ssa, z3/cvc5) for every input string; bounded exhaustive execution (labelled bounded) for the round-trip, override and rejection claims',
             text='Proved for all input strings: every generated index, slice, nil-dereference and type-assertion obligation of ParseSimple, Parse, setValue, FormatSimple, FormatURI and tagToField, so the simple-form tokenizer cannot panic whatever the input. The round trips through the URI and simple forms, alias override order, last-value-wins and unknown-key rejection depend on net/url, reflect and strconv, which are outside the generator; they are decided only on a stated finite domain by executing the real functions; that part is bounded, not proved.',
             note='Bounded part: 25 boundary texts (URI metacharacters, %, KEY, invalid UTF-8, control bytes) for the URI form, 24 texts of the documented alphabet for the simple form, all strings over a 12-symbol alphabet to length 4 (quick) / 5 (thorough) plus 20000 seeded random strings for totality. Library contracts (strings, net/url, reflect, fmt) are assumed; string lengths are assumed at most 2^48. ParseURI obligations needing net/url facts (non-empty value lists, Parse result non-nil, target having hostname/port fields) are unclaimed. Two genuine defects were repaired (ParseSimple quotation handling; FormatURI KEY substring).',
             ref='3 C17'),
 'C18': dict(tech='contract-based deductive verification of the sequential methods (pre/postconditions, type invariants, frame), VCs from go/ssa, z3/cvc5',
             text='Sequential contracts of the name pool are proved for all inputs: the minting closure returns a fresh cell holding counter+1, Acquire returns a fresh Name with a non-nil id, Release clears the Name, and releasing nil or an already released Name is a no-op so no nil id enters the pool. Proof level for these per-method statements.',
             note='Not decided: uniqueness of ids among concurrent holders under arbitrary schedules (goroutines are not modelled; the lifting from one-atomic-action-per-method to all histories is an unchecked argument in DESIGN.md). Assumes the sync.Pool Get/Put contract and atomicity of sync/atomic.',
             ref='3 C18'),
 'C19': dict(tech='contract-based deductive verification: VersionRange.contains against a spec function over an uninterpreted deterministic comparer, VCs from go/ssa, z3/cvc5',
             text='For every comparer (uninterpreted deterministic function) and all strings, contains returns exactly the interval membership stated by the property (inclusive lower, exclusive upper, missing bound unbounded, empty range contains nothing) and reports an error exactly when a needed comparison fails, never a silent answer. Safety and constructor postconditions for Target.SetCapabilities/Version, NewCapability, DefaultVersion. Proof level for these.',
             note='The loop of SetCapabilities (first containing range wins, error on inverted ranges when evaluated) is covered for memory safety only; the set-level statement (exists over ranges) and order independence are not mechanised. Comparer determinism and the go-version library are assumed.',
             ref='3 C19'),
 'C20': dict(tech='contract-based deductive verification: postconditions naming the unique result for every integer level, map iteration modelled as arbitrary order, VCs from go/ssa, z3/cvc5',
             text='ASEIsolationLevelFromGo and ToGo are proved equal to spec functions written from the property statement for every int value (not only -8..64), the error is returned exactly for unsupported levels, and the round trip lemma back(fwd(x)) == x is proved for the four supported non-default levels. Determinism follows because each postcondition names one value. Proof level.',
             note='Assumes sql.IsolationLevel.String is a pure function and the table sql2ase is not modified after initialisation (read from its literal each run). A genuine defect (ToGo depended on map iteration order) was repaired, see known_findings.txt.',
             ref='3 C20'),
 'C10': dict(tech='contract-based deductive verification: zero-annotation safety sweep (nil, index, slice, make, division, type assertion, callee preconditions) over the receive call tree, VCs from go/ssa, z3/cvc5',
             text='Generated safety obligations of every parser / value decoder reachable from the packet reader are discharged for arbitrary stream contents; structural preconditions are carried by type invariants and typestate ghosts checked at constructors. Proof level: per-function obligations, unbounded.',
             note='Assumes library functions do not panic when their stated preconditions hold, String()/Error() methods do not panic, non-nil receivers (obligation at static call sites). The allocation clause is only exercised by a bounded island (prefixes and single-byte mutations of 13 sample encodings through the real parsers, labelled bounded); it records one known finding (PacketQueue.Bytes allocates the declared length before the bytes are available), printed as KNOWN-FINDING. Failed parser obligations are replayed on the real code by the same harness.',
             ref='3 C10'),
}
na_reason = 'contracts designed in DESIGN.md section 3 but not yet mechanised in this revision; no check is claimed'
checks=[]; na=[]
for p in props:
    i=p['id']
    if i in claimed:
        c=claimed[i]
        checks.append({
          'property_id': i,
          'quick_cmd': f'./check {i} --tier quick',
          'thorough_cmd': f'./check {i} --tier thorough',
          'evidence_file': f'/verif/evidence/{i}.json',
          'replay_cmd_template': './check --replay {path}',
          'engine': 'govc',
          'level_claimed': {'category':c.get('cat','proof'),'text':c['text'],'design_ref':'DESIGN.md '+c['ref']},
          'level_note': c['note'],
          'technique': c['tech'],
        })
    else:
        na.append({'property_id': i, 'reason': na_reason})
hooks = subprocess.run(['git','-C','/repo','log','--format=%H %s'],capture_output=True,text=True).stdout.strip().split('\n')
hook_commits=[l.split()[0] for l in hooks if 'verif hook' in l]
baseline=json.load(open('/root/.vp/BASELINE.json'))
m={
 'version':1,
 'setup_cmd':'cd /verif/govc && GOFLAGS=-mod=vendor GOPROXY=off GOSUMDB=off GOTOOLCHAIN=local go build -o /verif/bin/govc .',
 'hooks':{'guard':'verif','enable':'-tags verif (comment-only contract files <pkg>/contracts_verif.go)','baseline_off_cmd':baseline['cmd'],'source_commits':hook_commits,'add_only':True},
 'engines':[{'name':'govc','path':'/verif/govc','serves_properties':sorted(claimed),'kind_free_text':'verification-condition generator over go/ssa (contracts as //@ comments in /repo/<pkg>/contracts_verif.go), obligations discharged by z3 4.8.12, z3 5.1.0, cvc5 1.0'}],
 'checks':checks,
 'not_applicable':na,
 'notes':'All checks rebuild the SSA of /repo\'s working tree on every run (build tag verif). Known findings: /verif/known_findings.txt.'
}
json.dump(m,open('/verif/MANIFEST.json','w'),indent=1)
print('checks',len(checks),'na',len(na))
