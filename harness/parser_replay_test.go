package tds

// Replay harness for failed parser obligations (C07 / C10): when an obligation of a
// ReadFrom function fails, the check runs this file against the real code to look for a
// concrete failing input. It encodes sample packages with the real WriteTo, then feeds
// (a) every proper prefix and (b) single-byte mutations of the encoding to the real
// LookupPackage / LastPkg / ReadFrom and reports inputs for which a truncated encoding
// does not yield ErrNotEnoughBytes, or for which the parser panics.
// REPLAY_TYPE restricts the run to package types whose name contains the value.
// Prints one line "REPLAY {...}".

import (
	"encoding/json"
	"errors"
	"fmt"
	"os"
	"runtime"
	"runtime/debug"
	"strings"
	"testing"

	"github.com/SAP/go-dblib/asetypes"
)

func replayEncode(pkgs ...Package) ([]byte, error) {
	tx := NewPacketQueue(func() int { return 65535 })
	var last Package
	for _, p := range pkgs {
		if acc, ok := p.(LastPkgAcceptor); ok {
			if err := acc.LastPkg(last); err != nil {
				return nil, err
			}
		}
		if err := p.WriteTo(tx); err != nil {
			return nil, err
		}
		last = p
	}
	var out []byte
	for i, pk := range tx.queue {
		if i < tx.indexPacket {
			out = append(out, pk.Data...)
		} else if i == tx.indexPacket {
			out = append(out, pk.Data[:tx.indexData]...)
		}
	}
	return out, nil
}

// replayDecode parses n packages from bs (no end-of-message flag: more data could follow).
func replayDecode(bs []byte, n int) (err error, panicked interface{}) {
	defer func() {
		if r := recover(); r != nil {
			panicked = r
		}
	}()
	rx := NewPacketQueue(func() int { return 65535 })
	if len(bs) > 0 {
		p := NewPacket(PacketHeaderSize + len(bs))
		copy(p.Data, bs)
		rx.AddPacket(p)
	}
	var last Package
	for i := 0; i < n; i++ {
		tok, err := rx.Byte()
		if err != nil {
			return err, nil
		}
		pkg, err := LookupPackage(Token(tok))
		if err != nil {
			return err, nil
		}
		if tl, ok := pkg.(*TokenlessPackage); ok {
			tl.Data.WriteByte(tok)
		}
		if acc, ok := pkg.(LastPkgAcceptor); ok {
			if err := acc.LastPkg(last); err != nil {
				return err, nil
			}
		}
		if err := pkg.ReadFrom(rx); err != nil {
			return err, nil
		}
		last = pkg
	}
	return nil, nil
}

func TestReplayParsers(t *testing.T) {
	filter := os.Getenv("REPLAY_TYPE")
	type sample struct {
		name string
		pkgs []Package
	}
	v1, _ := NewVersion([]byte{5, 0, 0, 0})
	v2, _ := NewVersion([]byte{16, 0, 4, 2})
	dynN, dynW := NewDynamicPackage(false), NewDynamicPackage(true)
	dynN.Type, dynN.ID, dynN.Stmt = TDS_DYN_PREPARE, "id1", "select 1"
	dynW.Type, dynW.ID, dynW.Stmt = TDS_DYN_PREPARE, "id2", "select 22"
	mkParams := func(wide bool) []Package {
		var fmts []FieldFmt
		var data []FieldData
		for i, x := range []struct {
			dt asetypes.DataType
			v  interface{}
		}{{asetypes.INT4, int32(-7)}, {asetypes.VARCHAR, "hello"}, {asetypes.LONGBINARY, []byte{1, 2, 3}}, {asetypes.INTN, int64(5)}} {
			f, d, err := LookupFieldFmtData(x.dt)
			if err != nil {
				continue
			}
			f.SetName(fmt.Sprintf("@p%d", i))
			if !f.IsFixedLength() {
				f.setMaxLength(255)
			}
			d.SetValue(x.v)
			fmts, data = append(fmts, f), append(data, d)
		}
		return []Package{NewParamFmtPackage(wide, fmts...), NewParamsPackage(data...)}
	}
	caps, _ := NewCapabilityPackage([]RequestCapability{TDS_REQ_LANG, TDS_REQ_MSTMT}, []ResponseCapability{TDS_RES_NOMSG}, nil)
	samples := []sample{
		{"DonePackage", []Package{&DonePackage{Status: TDS_DONE_COUNT, TranState: 1, Count: 42}}},
		{"ReturnStatusPackage", []Package{&ReturnStatusPackage{ReturnValue: 7}}},
		{"MsgPackage", []Package{NewMsgPackage(TDS_MSG_HASARGS, TDS_MSG_SEC_ENCRYPT4)}},
		{"EEDPackage", []Package{&EEDPackage{MsgNumber: 4002, State: 1, Class: 14, SQLState: []byte("ZZZZZ"), Status: TDS_NO_EED, TranState: 1, Msg: "Login failed.", ServerName: "ASE", ProcName: "p", LineNr: 7}}},
		{"ErrorPackage", []Package{&ErrorPackage{ErrorNumber: 911, State: 2, Class: 16, ErrorMsg: "no such db", ServerName: "ASE", ProcName: "p", LineNr: 3}}},
		{"EnvChangePackage", []Package{&EnvChangePackage{members: []EnvChangePackageField{{Type: TDS_ENV_DB, NewValue: "master", OldValue: "tempdb"}, {Type: TDS_ENV_PACKSIZE, NewValue: "2048", OldValue: "512"}}}}},
		{"LoginAckPackage", []Package{&LoginAckPackage{Length: 13, Status: TDS_LOG_SUCCEED, Version: v1, NameLength: 3, ProgramName: "ASE", ProgramVersion: v2}}},
		{"LanguagePackage", []Package{&LanguagePackage{Status: TDS_LANGUAGE_NOARGS, Cmd: "select 1"}}},
		{"DynamicPackage", []Package{dynN}},
		{"DynamicPackage", []Package{dynW}},
		{"ParamFmtPackage ParamsPackage", mkParams(false)},
		{"ParamFmtPackage ParamsPackage", mkParams(true)},
	}
	if caps != nil {
		samples = append(samples, sample{"CapabilityPackage", []Package{caps}})
	}
	var failures []string
	evals := 0
	add := func(f string, a ...interface{}) {
		if len(failures) < 12 {
			failures = append(failures, fmt.Sprintf(f, a...))
		}
	}
	for _, s := range samples {
		if filter != "" && !strings.Contains(s.name, filter) {
			continue
		}
		enc, err := replayEncode(s.pkgs...)
		if err != nil {
			continue
		}
		if err, pn := replayDecode(enc, len(s.pkgs)); err != nil || pn != nil {
			continue // not readable by the library at all: nothing to compare with
		}
		for n := 0; n < len(enc); n++ {
			evals++
			err, pn := replayDecode(enc[:n], len(s.pkgs))
			if pn != nil {
				add("panic :: %s: prefix of %d bytes of % x: panic: %v", s.name, n, enc, pn)
			} else if err == nil || !errors.Is(err, ErrNotEnoughBytes) {
				add("truncation :: %s: prefix of %d bytes of % x: err = %v, want ErrNotEnoughBytes", s.name, n, enc, err)
			}
		}
		for i := 0; i < len(enc); i++ {
			vals := []byte{0x00, 0x01}
			if i <= 3 {
				// token, 16 bit length, low bytes of a 32 bit length; high values further in would
				// only scale the allocation finding to gigabytes
				vals = []byte{0x00, 0x01, 0x7f, 0x80, 0xff}
			}
			for _, b := range vals {
				if enc[i] == b {
					continue
				}
				mut := append([]byte{}, enc...)
				mut[i] = b
				evals++
				var m0, m1 runtime.MemStats
				runtime.ReadMemStats(&m0)
				_, pn := replayDecode(mut, len(s.pkgs))
				runtime.ReadMemStats(&m1)
				if pn != nil {
					add("panic :: %s: byte %d of % x set to %#x: panic: %v", s.name, i, enc, b, pn)
				}
				// allocation out of proportion: more than 1 MiB for an input of a few dozen bytes
				if d := m1.TotalAlloc - m0.TotalAlloc; d > 1<<20 {
					add("alloc-before-available :: %s: byte %d of % x set to %#x: %d bytes allocated for %d bytes of input", s.name, i, enc, b, d, len(mut))
					debug.FreeOSMemory()
				}
			}
		}
	}
	out, _ := json.Marshal(map[string]interface{}{"evaluations": evals, "distinct": len(samples), "failures": failures})
	fmt.Printf("REPLAY %s\n", out)
	fmt.Printf("ISLAND %s\n", out)
	if len(failures) > 0 {
		t.Fail()
	}
}
