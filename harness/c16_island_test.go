package asetypes

// Bounded stand-in for the digit-level claims of C16 (string <-> integer
// reasoning is outside the VC generator): boundary-exhaustive execution of the
// real String / SetString / Cmp for every (precision, scale) pair, compared
// with math/big.Rat. Prints one line "ISLAND {...}".

import (
	"encoding/json"
	"fmt"
	"math/big"
	"strings"
	"testing"
)

func TestIslandC16(t *testing.T) {
	evals, distinct := 0, map[string]bool{}
	var failures []string
	fail := func(f string, a ...interface{}) {
		if len(failures) < 20 {
			failures = append(failures, fmt.Sprintf(f, a...))
		}
	}
	ten := big.NewInt(10)
	for p := 1; p <= 38; p++ {
		for s := 0; s <= p; s++ {
			// boundary unscaled integers with at most p digits
			var vals []*big.Int
			vals = append(vals, big.NewInt(0), big.NewInt(1), big.NewInt(7))
			for k := 1; k <= p; k++ {
				pk := new(big.Int).Exp(ten, big.NewInt(int64(k)), nil)
				if k < p {
					vals = append(vals, pk) // 10^k has k+1 digits
				}
				vals = append(vals, new(big.Int).Sub(pk, big.NewInt(1)))
			}
			scale := new(big.Int).Exp(ten, big.NewInt(int64(s)), nil)
			for _, v := range vals {
				for _, sign := range []int64{1, -1} {
					u := new(big.Int).Mul(v, big.NewInt(sign))
					dec, err := NewDecimal(p, s)
					if err != nil {
						fail("NewDecimal(%d,%d): %v", p, s, err)
						continue
					}
					dec.i.Set(u)
					txt := dec.String()
					evals++
					distinct[fmt.Sprintf("%d/%d/%s", p, s, u)] = true
					// 1. exact expansion
					want := new(big.Rat).SetFrac(u, scale)
					got, ok := new(big.Rat).SetString(txt)
					if !ok || got.Cmp(want) != 0 {
						fail("(%d,%d) %s prints %q", p, s, u, txt)
					}
					// 2. canonical form
					body := strings.TrimPrefix(txt, "-")
					parts := strings.Split(body, ".")
					if len(parts) != 2 || parts[0] == "" || parts[1] == "" ||
						(len(parts[0]) > 1 && parts[0][0] == '0') || (len(parts[1]) > 1 && strings.HasSuffix(parts[1], "0")) ||
						(u.Sign() >= 0 && strings.HasPrefix(txt, "-")) || (u.Sign() < 0 && !strings.HasPrefix(txt, "-")) {
						fail("(%d,%d) %s: %q is not canonical", p, s, u, txt)
					}
					// 3. parse back
					back, err := NewDecimalString(p, s, txt)
					if err != nil || !back.Cmp(*dec) {
						fail("(%d,%d) %s: parse(%q) = %v, %v", p, s, u, txt, back, err)
					}
					// 4. variants: spaces, leading zeros, trailing zeros
					for _, variant := range []string{" " + txt + " ", strings.Replace(txt, ".", "0.", 0), txt + "00"} {
						vtxt := variant
						if strings.HasPrefix(txt, "-") {
							vtxt = strings.Replace(vtxt, "-", "-00", 1)
						} else {
							vtxt = strings.Replace(vtxt, strings.TrimSpace(vtxt), "00"+strings.TrimSpace(vtxt), 1)
						}
						evals++
						b2, err := NewDecimalString(p, s, vtxt)
						if err != nil || !b2.Cmp(*dec) {
							fail("(%d,%d) variant %q of %q: %v, %v", p, s, vtxt, txt, b2, err)
						}
					}
				}
			}
			// 5. unrepresentable input is rejected: one fractional digit too many, one digit too many, two points
			evals += 3
			tooFine := "0." + strings.Repeat("0", s) + "1"
			if _, err := NewDecimalString(p, s, tooFine); err == nil {
				fail("(%d,%d) %q accepted", p, s, tooFine)
			}
			tooBig := "1" + strings.Repeat("0", p-s) + ".0"
			if _, err := NewDecimalString(p, s, tooBig); err == nil {
				fail("(%d,%d) %q accepted", p, s, tooBig)
			}
			if _, err := NewDecimalString(p, s, "1.2.3"); err == nil {
				fail("(%d,%d) 1.2.3 accepted", p, s)
			}
		}
	}
	// invalid precision/scale combinations are rejected
	for p := -2; p <= 40; p++ {
		for s := -2; s <= 40; s++ {
			evals++
			_, err := NewDecimal(p, s)
			valid := 0 <= p && p <= 38 && 0 <= s && s <= p
			if (err == nil) != valid {
				fail("NewDecimal(%d,%d) err=%v", p, s, err)
			}
		}
	}
	out, _ := json.Marshal(map[string]interface{}{"evaluations": evals, "distinct": len(distinct), "failures": failures})
	fmt.Printf("ISLAND %s\n", out)
	if len(failures) > 0 {
		t.Fail()
	}
}
