package dsn

// Bounded stand-in for the text-level claims of C17 (net/url, reflect and
// strconv are outside the VC generator): executes the real FormatURI /
// ParseURI / FormatSimple / ParseSimple / Parse on a boundary-exhaustive value
// grid and on every string over a 12-symbol alphabet up to length 5 (plus a
// seeded random sample up to length 12). Prints one line "ISLAND {...}".

import (
	"encoding/json"
	"fmt"
	"math/rand"
	"os"
	"strconv"
	"strings"
	"testing"
)

type c17Embedded struct {
	Inner string `json:"inner" multiref:"in,nested"`
}

type c17Target struct {
	Info
	c17Embedded
	PropS string `json:"props" multiref:"ps"`
	PropB bool   `json:"propb"`
	PropI int    `json:"propi" multiref:"pi"`
	NoTag string
}

func TestIslandC17(t *testing.T) {
	evals, distinct := 0, map[string]bool{}
	var failures []string
	fail := func(f string, a ...interface{}) {
		if len(failures) < 20 {
			failures = append(failures, fmt.Sprintf(f, a...))
		}
	}
	guard := func(what string, f func()) {
		defer func() {
			if r := recover(); r != nil {
				fail("%s: panic: %v", what, r)
			}
		}()
		f()
	}

	// ---- 1. URI round trip: any text in user, password, database, properties.
	uriTexts := []string{"", "a", "user name", " lead", "trail ", "a  b", "p@ss:w/rd", "q?x=1&y=2#frag", "100%", "%41", "a+b", "KEY", "MONKEY", "key",
		"ü€\U0001F600", "\xff\xfe", "\x00\x1f", "'q\"", "\\", "a;b", "[::1]", "//", "=", "&", "\t\n"}
	ints := []int{0, 1, -1, 42, -2147483648, 9223372036854775807, -9223372036854775808}
	for i, u := range uriTexts {
		for j, p := range uriTexts {
			// pair each user with three passwords / databases / properties to keep the grid small
			if (i+j)%8 != 0 && i != j && j != 0 {
				continue
			}
			db := uriTexts[(i+2*j+3)%len(uriTexts)]
			ps := uriTexts[(2*i+j+5)%len(uriTexts)]
			in := uriTexts[(i+j+7)%len(uriTexts)]
			for _, b := range []bool{false, true} {
				n := ints[(i+j)%len(ints)]
				src := c17Target{Info: Info{Host: "h.example", Port: "5000", Username: u, Password: p, Database: db}, c17Embedded: c17Embedded{Inner: in}, PropS: ps, PropB: b, PropI: n}
				evals++
				distinct["uri/"+u+"/"+p+"/"+db+"/"+ps+"/"+strconv.FormatBool(b)] = true
				guard("uri round trip", func() {
					txt, err := FormatURI(&src)
					if err != nil {
						fail("FormatURI(%+v): %v", src, err)
						return
					}
					var back c17Target
					if err := ParseURI(txt, &back); err != nil {
						fail("ParseURI(%q) of %+v: %v", txt, src, err)
						return
					}
					if back != src {
						fail("URI round trip: %+v -> %q -> %+v", src, txt, back)
					}
				})
			}
		}
	}
	// last value of a repeated key wins; unknown keys are rejected
	for _, c := range []struct {
		in   string
		want string
		err  bool
	}{
		{"ase://u:p@h:1/?props=a&props=b", "b", false},
		{"ase://u:p@h:1/?props=b&props=a&props=", "", false},
		{"ase://u:p@h:1/?props=a&ps=b&props=c", "", false}, // aliases: either may win (map order) but never an error
		{"ase://u:p@h:1/?nosuchkey=a", "", true},
		{"ase://u:p@h:1/?NoTag=a", "", true},
		{"ase://u:p@h:1/?props=a&=b", "", true},
	} {
		evals++
		guard("uri repeated", func() {
			var tg c17Target
			err := ParseURI(c.in, &tg)
			if (err != nil) != c.err {
				fail("ParseURI(%q): err=%v, want error=%v", c.in, err, c.err)
			} else if !c.err && !strings.Contains(c.in, "&ps=") && tg.PropS != c.want {
				fail("ParseURI(%q): props=%q, want %q", c.in, tg.PropS, c.want)
			}
		})
	}

	// ---- 2. simple-form round trip: text free of quotes, backslashes, control characters.
	simpleTexts := []string{"", "a", " ", "  ", " a", "a ", " a ", "a b", "a  b", "  a  b  ", "a=b", "=", "a= b", "x y=z", "= =", "k=v k2=v2", "host=h", " host=h ", "ü€", "a,b;c", "p@ss:w/rd?&#%+", "0", "true", "-1"}
	for i, a := range simpleTexts {
		for j, b := range simpleTexts {
			if (i+j)%6 != 0 && i != j && j != 0 && i != 0 {
				continue
			}
			c := simpleTexts[(i+2*j+1)%len(simpleTexts)]
			d := simpleTexts[(2*i+j+3)%len(simpleTexts)]
			for _, bv := range []bool{false, true} {
				n := ints[(i+2*j)%len(ints)]
				src := c17Target{Info: Info{Host: a, Port: b, Username: c, Password: d, Database: a + b}, c17Embedded: c17Embedded{Inner: d + c}, PropS: b + a, PropB: bv, PropI: n}
				evals++
				distinct["simple/"+a+"/"+b+"/"+c+"/"+d+"/"+strconv.FormatBool(bv)] = true
				guard("simple round trip", func() {
					txt := FormatSimple(&src)
					var back c17Target
					if err := ParseSimple(txt, &back); err != nil {
						fail("ParseSimple(%q) of %+v: %v", txt, src, err)
						return
					}
					if back != src {
						fail("simple round trip: %+v -> %q -> %+v", src, txt, back)
					}
					var back2 c17Target
					if err := Parse(txt, &back2); strings.Contains(txt, "://") == false && (err != nil || back2 != src) {
						fail("Parse(%q): %v %+v", txt, err, back2)
					}
				})
			}
		}
	}
	// override order with aliases, single quotes, unknown keys
	for _, c := range []struct {
		in   string
		want c17Target
		err  bool
	}{
		{`host=a hostname=b`, c17Target{Info: Info{Host: "b"}}, false},
		{`hostname=b host=a`, c17Target{Info: Info{Host: "a"}}, false},
		{`passwd=1 pass=2 password=3 pass=4`, c17Target{Info: Info{Password: "4"}}, false},
		{`in=x nested="y z" inner='w  w'`, c17Target{c17Embedded: c17Embedded{Inner: "w  w"}}, false},
		{`pi=5 propi=-7 propb=true propb=false`, c17Target{PropI: -7}, false},
		{`ps=" a " props=b ps=' c'`, c17Target{PropS: " c"}, false},
		{`host=a nosuchkey=b`, c17Target{}, true},
		{`NoTag=b`, c17Target{}, true},
		{`host=a =b`, c17Target{}, true},
		{`propi=abc`, c17Target{}, true},
		{`propb=maybe`, c17Target{}, true},
		{`host`, c17Target{}, true},
	} {
		evals++
		guard("simple override", func() {
			var tg c17Target
			err := ParseSimple(c.in, &tg)
			if (err != nil) != c.err {
				fail("ParseSimple(%q): err=%v, want error=%v", c.in, err, c.err)
			} else if !c.err && tg != c.want {
				fail("ParseSimple(%q) = %+v, want %+v", c.in, tg, c.want)
			}
		})
	}

	// ---- 3. totality: no input string makes Parse / ParseSimple / ParseURI panic.
	alphabet := []string{`"`, `'`, " ", "=", "h", "host", "://", "%", ":", "/", "?", "@"}
	var rec func(prefix string, depth int)
	total := func(s string) {
		evals++
		guard(fmt.Sprintf("Parse(%q)", s), func() { var tg c17Target; _ = Parse(s, &tg) })
		guard(fmt.Sprintf("ParseSimple(%q)", s), func() { var tg c17Target; _ = ParseSimple(s, &tg) })
		guard(fmt.Sprintf("ParseURI(%q)", s), func() { var tg c17Target; _ = ParseURI(s, &tg) })
	}
	rec = func(prefix string, depth int) {
		total(prefix)
		if depth == 0 {
			return
		}
		for _, a := range alphabet {
			rec(prefix+a, depth-1)
		}
	}
	depth := 4
	if os.Getenv("VERIF_TIER") == "thorough" {
		depth = 5
	}
	rec("", depth)
	seed, _ := strconv.ParseInt(os.Getenv("VERIF_SEED"), 10, 64)
	rng := rand.New(rand.NewSource(seed))
	big := append([]string{"&", "#", "[", "]", "\\", "a", "1", "-", "\x00", "propi=", "propb=", "user"}, alphabet...)
	for k := 0; k < 20000; k++ {
		var sb strings.Builder
		for n := 5 + rng.Intn(8); n > 0; n-- {
			sb.WriteString(big[rng.Intn(len(big))])
		}
		total(sb.String())
	}

	out, _ := json.Marshal(map[string]interface{}{"evaluations": evals, "distinct": len(distinct), "failures": failures})
	fmt.Printf("ISLAND %s\n", out)
	if len(failures) > 0 {
		t.Fail()
	}
}
