package tds

// Bounded stand-in for the round-trip half of C06 (and the "value travels inside a
// parameter package" clause of C04): executes the real WriteTo of each package into a real
// PacketQueue, feeds the bytes through LookupPackage / LastPkg / ReadFrom on a second queue
// and compares the serialised fields; also checks that the bytes are consumed exactly.
// Failures are reported as "<key> :: <text>". Prints one line "ISLAND {...}".

import (
	"encoding/json"
	"fmt"
	"math/rand"
	"os"
	"reflect"
	"strconv"
	"strings"
	"testing"

	"github.com/SAP/go-dblib/asetypes"
)

func c06Encode(pkgs ...Package) ([]byte, error) {
	tx := NewPacketQueue(func() int { return 65535 })
	var last Package
	for _, p := range pkgs {
		if acc, ok := p.(LastPkgAcceptor); ok {
			if err := acc.LastPkg(last); err != nil {
				return nil, fmt.Errorf("LastPkg: %w", err)
			}
		}
		if err := p.WriteTo(tx); err != nil {
			return nil, err
		}
		last = p
	}
	var out []byte
	for i, pk := range tx.queue {
		if i < tx.indexPacket {
			out = append(out, pk.Data...)
		} else if i == tx.indexPacket {
			out = append(out, pk.Data[:tx.indexData]...)
		}
	}
	return out, nil
}

// c06Decode parses n packages from bs the way Channel.tryParsePackage does.
func c06Decode(bs []byte, n int) ([]Package, int, error) {
	rx := NewPacketQueue(func() int { return 65535 })
	p := NewPacket(PacketHeaderSize + len(bs))
	copy(p.Data, bs)
	p.Header.Status = TDS_BUFSTAT_EOM
	rx.AddPacket(p)
	var out []Package
	var last Package
	for i := 0; i < n; i++ {
		tok, err := rx.Byte()
		if err != nil {
			return out, 0, fmt.Errorf("token %d: %w", i, err)
		}
		pkg, err := LookupPackage(Token(tok))
		if err != nil {
			return out, 0, err
		}
		if tl, ok := pkg.(*TokenlessPackage); ok {
			tl.Data.WriteByte(tok)
		}
		if acc, ok := pkg.(LastPkgAcceptor); ok {
			if err := acc.LastPkg(last); err != nil {
				return out, 0, fmt.Errorf("LastPkg: %w", err)
			}
		}
		if err := pkg.ReadFrom(rx); err != nil {
			return out, 0, fmt.Errorf("%T.ReadFrom: %w", pkg, err)
		}
		out = append(out, pkg)
		last = pkg
	}
	if !rx.AllPacketsConsumed() {
		return out, 1, nil
	}
	return out, 0, nil
}

func TestIslandC06(t *testing.T) {
	seed, _ := strconv.ParseInt(os.Getenv("VERIF_SEED"), 10, 64)
	rng := rand.New(rand.NewSource(seed))
	evals, distinct := 0, map[string]bool{}
	var failures []string
	seenKey := map[string]int{}
	fail := func(key, f string, a ...interface{}) {
		seenKey[key]++
		if seenKey[key] <= 2 && len(failures) < 60 {
			failures = append(failures, key+" :: "+fmt.Sprintf(f, a...))
		}
	}
	strs := []string{"", "a", "master", strings.Repeat("x", 30), strings.Repeat("y", 255), "ü€\U0001F600"}
	// roundtrip writes src (after the packages in before), reads everything back and compares
	// the last package with want (src itself if nil) using reflect.DeepEqual on the pointed-to structs
	roundtrip := func(key string, src Package, before ...Package) {
		evals++
		distinct[key+"/"+fmt.Sprint(src)] = true
		defer func() {
			if r := recover(); r != nil {
				fail(key+"/panic", "%v: %v", src, r)
			}
		}()
		bs, err := c06Encode(append(append([]Package{}, before...), src)...)
		if err != nil {
			fail(key+"/encode", "%v: %v", src, err)
			return
		}
		got, rest, err := c06Decode(bs, len(before)+1)
		if err != nil {
			fail(key+"/decode", "%v -> % x: %v", src, bs, err)
			return
		}
		if rest != 0 {
			fail(key+"/consumed", "%v: the %d bytes written were not consumed exactly", src, len(bs))
		}
		back := got[len(got)-1]
		a, b := reflect.ValueOf(src), reflect.ValueOf(back)
		if a.Kind() == reflect.Ptr {
			a = a.Elem()
		}
		if b.Kind() == reflect.Ptr {
			b = b.Elem()
		}
		if a.Type() != b.Type() {
			fail(key+"/type", "%v read back as %T", src, back)
			return
		}
		if fmt.Sprint(src) != fmt.Sprint(back) {
			fail(key+"/fields", "wrote %v, read %v", src, back)
		}
	}
	// ---- fixed and simple packages
	for _, st := range []DoneState{TDS_DONE_FINAL, TDS_DONE_MORE, TDS_DONE_ERROR, TDS_DONE_COUNT, TDS_DONE_MORE | TDS_DONE_COUNT, TDS_DONE_PROC, TDS_DONE_ATTN} {
		for _, cnt := range []int32{0, 1, -1, 2147483647, -2147483648} {
			roundtrip("done", &DonePackage{Status: st, TranState: TransState(rng.Intn(5)), Count: cnt})
		}
	}
	for _, v := range []int32{0, 1, -1, 2147483647, -2147483648, 168496141} {
		roundtrip("returnstatus", &ReturnStatusPackage{ReturnValue: v})
	}
	roundtrip("logout", &LogoutPackage{Options: 0})
	for _, id := range []TDSMsgId{TDS_MSG_SEC_ENCRYPT4, TDS_MSG_SEC_LOGPWD3, TDS_MSG_SEC_SYMKEY, 0, 65535} {
		roundtrip("msg", NewMsgPackage(TDS_MSG_HASARGS, id))
		roundtrip("msg", NewMsgPackage(TDS_MSG_HASNOARGS, id))
	}
	for _, a := range strs {
		for _, b := range strs[:4] {
			roundtrip("eed", &EEDPackage{MsgNumber: uint32(rng.Int31()), State: 3, Class: 14, SQLState: []byte(b), Status: TDS_NO_EED, TranState: 1, Msg: a, ServerName: b, ProcName: a[:len(a)%40], LineNr: 77})
			roundtrip("error", &ErrorPackage{ErrorNumber: rng.Int31(), State: 2, Class: 16, ErrorMsg: a, ServerName: b, ProcName: b, LineNr: 3})
			if len(a) <= 255 {
				roundtrip("envchange", &EnvChangePackage{members: []EnvChangePackageField{{Type: TDS_ENV_DB, NewValue: a, OldValue: b}}})
				roundtrip("envchange", &EnvChangePackage{members: []EnvChangePackageField{{Type: TDS_ENV_DB, NewValue: a, OldValue: b}, {Type: TDS_ENV_LANG, NewValue: "", OldValue: ""}, {Type: TDS_ENV_PACKSIZE, NewValue: "2048", OldValue: b}}})
			}
			roundtrip("language", &LanguagePackage{Status: TDS_LANGUAGE_NOARGS, Cmd: a + b})
			roundtrip("language", &LanguagePackage{Status: TDS_LANGUAGE_HASARGS, Cmd: a + b})
		}
	}
	// ---- parameter formats and data over the data types a client sends, narrow and wide
	type tv struct {
		dt asetypes.DataType
		v  interface{}
	}
	dec, _ := asetypes.NewDecimalString(10, 2, "-12345.67")
	mny, _ := asetypes.NewDecimalString(asetypes.ASEMoneyPrecision, asetypes.ASEMoneyScale, "922337203685477.5807")
	vals := []tv{{asetypes.INT4, int32(-7)}, {asetypes.INT8, int64(1) << 40}, {asetypes.INT2, int16(-300)}, {asetypes.INT1, uint8(200)},
		{asetypes.UINT4, uint32(4000000000)}, {asetypes.FLT8, 2.5}, {asetypes.FLT4, float32(-0.5)}, {asetypes.BIT, true},
		{asetypes.VARCHAR, "hello"}, {asetypes.VARCHAR, " "}, {asetypes.LONGCHAR, strings.Repeat("w", 300)}, {asetypes.LONGBINARY, []byte{0, 1, 2, 255}},
		{asetypes.VARBINARY, []byte{9, 8}}, {asetypes.INTN, int64(-5)}, {asetypes.INTN, nil}, {asetypes.FLTN, nil}, {asetypes.DECN, dec}, {asetypes.NUMN, dec}, {asetypes.MONEY, mny}, {asetypes.MONEYN, nil}}
	for _, wide := range []bool{false, true} {
		for _, status := range []uint{0, 0x8, 0x20, 0x28} {
			for i := 0; i < len(vals); i++ {
				// one, two and three fields per package
				for width := 1; width <= 3; width++ {
					var fmts []FieldFmt
					var data []FieldData
					ok := true
					for j := 0; j < width; j++ {
						x := vals[(i+5*j)%len(vals)]
						f, d, err := LookupFieldFmtData(x.dt)
						if err != nil {
							fail("params/lookup", "%v: %v", x.dt, err)
							ok = false
							break
						}
						f.SetName(fmt.Sprintf("@p%d", j))
						f.SetStatus(status)
						if !f.IsFixedLength() {
							f.setMaxLength(int64(255))
							if f.LengthBytes() == 4 {
								f.setMaxLength(int64(1 << 20))
							}
						}
						switch ff := f.(type) {
						case *DecNFieldFmt:
							ff.precision, ff.scale = 10, 2
						case *NumNFieldFmt:
							ff.precision, ff.scale = 10, 2
						}
						d.SetValue(x.v)
						fmts, data = append(fmts, f), append(data, d)
					}
					if !ok {
						continue
					}
					key := "params"
					if wide {
						key = "params-wide"
					}
					pf := NewParamFmtPackage(wide, fmts...)
					roundtrip(key+"/fmt", pf)
					roundtrip(key+"/data", NewParamsPackage(data...), pf)
				}
			}
		}
	}
	// ---- dynamic statements, login acknowledgement (row formats cannot be written by the library)
	for _, wide := range []bool{false, true} {
		for _, id := range strs[:4] {
			for _, stmt := range []string{"", "select 1", strings.Repeat("s", 300)} {
				d := NewDynamicPackage(wide)
				d.Type, d.Status, d.ID, d.Stmt = TDS_DYN_PREPARE, TDS_DYNAMIC_UNUSED, id, stmt
				roundtrip("dynamic", d)
			}
		}
	}
	for _, name := range strs[:5] {
		v1, _ := NewVersion([]byte{5, 0, 0, 0})
		v2, _ := NewVersion([]byte{16, 0, 4, 2})
		roundtrip("loginack", &LoginAckPackage{Length: uint16(10 + len(name)), Status: TDS_LOG_SUCCEED, Version: v1, NameLength: uint8(len(name)), ProgramName: name, ProgramVersion: v2})
	}
	out, _ := json.Marshal(map[string]interface{}{"evaluations": evals, "distinct": len(distinct), "failures": failures})
	fmt.Printf("ISLAND %s\n", out)
	if len(failures) > 0 {
		t.Fail()
	}
}
