package asetypes

// Bounded stand-in for the value-level claims of C04 / C05: the codecs go through
// encoding/binary (reflection), math/big, time and float expressions, which are outside
// the VC generator. Executes the real DataType.Bytes / GoValue over boundary-exhaustive
// and seeded domains and compares with an independently written reference codec (own
// civil-date arithmetic, math/big, explicit byte composition). Failures are reported as
// "<key> :: <text>" so that individual genuine defects can be listed in known_findings.txt.
// Prints one line "ISLAND {...}".

import (
	"bytes"
	"encoding/binary"
	"encoding/json"
	"fmt"
	"math"
	"math/big"
	"math/rand"
	"os"
	"strconv"
	"testing"
	"time"
	"unicode/utf16"

	"github.com/SAP/go-dblib/asetime"
)

// days from civil, proleptic Gregorian (Howard Hinnant's algorithm), day 0 = 1970-01-01
func c04DaysFromCivil(y, m, d int) int {
	if m <= 2 {
		y--
	}
	era := y / 400
	if y < 0 {
		era = (y - 399) / 400
	}
	yoe := y - era*400
	mp := (m + 9) % 12
	doy := (153*mp+2)/5 + d - 1
	doe := yoe*365 + yoe/4 - yoe/100 + doy
	return era*146097 + doe - 719468
}

func c04Civil(days int) (int, int, int) {
	z := days + 719468
	era := z / 146097
	if z < 0 {
		era = (z - 146096) / 146097
	}
	doe := z - era*146097
	yoe := (doe - doe/1460 + doe/36524 - doe/146096) / 365
	y := yoe + era*400
	doy := doe - (365*yoe + yoe/4 - yoe/100)
	mp := (5*doy + 2) / 153
	d := doy - (153*mp+2)/5 + 1
	m := mp + 3
	if m > 12 {
		m -= 12
	}
	if m <= 2 {
		y++
	}
	return y, m, d
}

func TestIslandC04(t *testing.T) {
	thorough := os.Getenv("VERIF_TIER") == "thorough"
	seed, _ := strconv.ParseInt(os.Getenv("VERIF_SEED"), 10, 64)
	rng := rand.New(rand.NewSource(seed))
	evals, distinct := 0, map[string]bool{}
	var failures []string
	seenKey := map[string]int{}
	fail := func(key, f string, a ...interface{}) {
		seenKey[key]++
		if seenKey[key] <= 3 && len(failures) < 60 {
			failures = append(failures, key+" :: "+fmt.Sprintf(f, a...))
		}
	}
	le := binary.LittleEndian
	guard := func(key string, f func()) {
		defer func() {
			if r := recover(); r != nil {
				fail(key+"/panic", "%v", r)
			}
		}()
		f()
	}
	// generic round trip through Bytes / GoValue
	rt := func(key string, dt DataType, v interface{}, length int64, want []byte, eq func(got interface{}) bool) {
		evals++
		guard(key, func() {
			bs, err := dt.Bytes(le, v, length)
			if err != nil {
				fail(key+"/encode", "%v(%v): %v", dt, v, err)
				return
			}
			if want != nil && !bytes.Equal(bs, want) {
				fail(key+"/layout", "%v(%v) encodes to % x, reference % x", dt, v, bs, want)
			}
			got, err := dt.GoValue(le, bs)
			if err != nil {
				fail(key+"/decode", "%v(%v) -> % x: %v", dt, v, bs, err)
				return
			}
			if !eq(got) {
				fail(key+"/roundtrip", "%v(%v) -> % x -> %v (%T)", dt, v, bs, got, got)
			}
		})
	}
	u64s := []uint64{0, 1, 2, 0x7f, 0x80, 0xff, 0x100, 0x7fff, 0x8000, 0xffff, 0x10000, 0x7fffffff, 0x80000000, 0xffffffff, 0x100000000,
		0x7fffffffffffffff, 0x8000000000000000, 0xffffffffffffffff, 0x0102030405060708, 0x80000000ffffffff, 0x00000000ffffffff, 0xffffffff00000000}
	n := 2000
	if thorough {
		n = 50000
	}
	for i := 0; i < n; i++ {
		u64s = append(u64s, rng.Uint64())
	}

	// ---- integers (exact), little-endian two's complement
	for v := 0; v < 256; v++ {
		x := uint8(v)
		rt("int1", INT1, x, 1, []byte{x}, func(g interface{}) bool { return g == x })
		rt("intn1", INTN, x, 1, []byte{x}, func(g interface{}) bool { return g == x })
	}
	for v := math.MinInt16; v <= math.MaxInt16; v++ {
		x := int16(v)
		w := []byte{byte(x), byte(uint16(x) >> 8)}
		rt("int2", INT2, x, 2, w, func(g interface{}) bool { return g == x })
		ux := uint16(x)
		rt("uint2", UINT2, ux, 2, w, func(g interface{}) bool { return g == ux })
		if v%17 == 0 {
			rt("intn2", INTN, x, 2, w, func(g interface{}) bool { return g == x })
			rt("uintn2", UINTN, ux, 2, w, func(g interface{}) bool { return g == ux })
		}
	}
	for _, u := range u64s {
		x4, x8 := int32(u), int64(u)
		w4 := []byte{byte(u), byte(u >> 8), byte(u >> 16), byte(u >> 24)}
		w8 := append(append([]byte{}, w4...), byte(u>>32), byte(u>>40), byte(u>>48), byte(u>>56))
		distinct[fmt.Sprint("int/", u)] = true
		rt("int4", INT4, x4, 4, w4, func(g interface{}) bool { return g == x4 })
		rt("intn4", INTN, x4, 4, w4, func(g interface{}) bool { return g == x4 })
		rt("uint4", UINT4, uint32(u), 4, w4, func(g interface{}) bool { return g == uint32(u) })
		rt("uintn4", UINTN, uint32(u), 4, w4, func(g interface{}) bool { return g == uint32(u) })
		rt("int8", INT8, x8, 8, w8, func(g interface{}) bool { return g == x8 })
		rt("intn8", INTN, x8, 8, w8, func(g interface{}) bool { return g == x8 })
		rt("uint8", UINT8, u, 8, w8, func(g interface{}) bool { return g == u })
		rt("uintn8", UINTN, u, 8, w8, func(g interface{}) bool { return g == u })
		// floats by bit pattern (NaN payloads included)
		f4, f8 := math.Float32frombits(uint32(u)), math.Float64frombits(u)
		rt("flt4", FLT4, f4, 4, w4, func(g interface{}) bool { r, ok := g.(float32); return ok && math.Float32bits(r) == uint32(u) })
		rt("fltn4", FLTN, f4, 4, w4, func(g interface{}) bool { r, ok := g.(float32); return ok && math.Float32bits(r) == uint32(u) })
		rt("flt8", FLT8, f8, 8, w8, func(g interface{}) bool { r, ok := g.(float64); return ok && math.Float64bits(r) == u })
		rt("fltn8", FLTN, f8, 8, w8, func(g interface{}) bool { r, ok := g.(float64); return ok && math.Float64bits(r) == u })
		// money: high word then low word of a 1/10000 count
		mny, _ := NewDecimal(ASEMoneyPrecision, ASEMoneyScale)
		mny.SetInt64(x8)
		hi, lo := uint32(u>>32), uint32(u)
		wm := []byte{byte(hi), byte(hi >> 8), byte(hi >> 16), byte(hi >> 24), byte(lo), byte(lo >> 8), byte(lo >> 16), byte(lo >> 24)}
		eqDec := func(want int64, p, s int) func(interface{}) bool {
			return func(g interface{}) bool {
				d, ok := g.(*Decimal)
				return ok && d != nil && d.Int().Cmp(big.NewInt(want)) == 0 && d.Precision == p && d.Scale == s
			}
		}
		rt("money", MONEY, mny, 8, wm, eqDec(x8, ASEMoneyPrecision, ASEMoneyScale))
		rt("moneyn8", MONEYN, mny, 8, wm, eqDec(x8, ASEMoneyPrecision, ASEMoneyScale))
		smny, _ := NewDecimal(ASEShortMoneyPrecision, ASEShortMoneyScale)
		smny.SetInt64(int64(x4))
		rt("shortmoney", SHORTMONEY, smny, 4, w4, eqDec(int64(x4), ASEShortMoneyPrecision, ASEShortMoneyScale))
		rt("moneyn4", MONEYN, smny, 4, w4, eqDec(int64(x4), ASEShortMoneyPrecision, ASEShortMoneyScale))
	}
	// ---- bit
	rt("bit", BIT, true, 1, []byte{1}, func(g interface{}) bool { return g == true })
	rt("bit", BIT, false, 1, []byte{0}, func(g interface{}) bool { return g == false })

	// ---- decimal / numeric: sign byte plus big-endian magnitude
	ten := big.NewInt(10)
	for p := 1; p <= 38; p++ {
		for s := 0; s <= p; s += 1 + p/6 {
			var vals []*big.Int
			vals = append(vals, big.NewInt(0), big.NewInt(1), big.NewInt(255), big.NewInt(256))
			top := new(big.Int).Exp(ten, big.NewInt(int64(p)), nil)
			vals = append(vals, new(big.Int).Sub(top, big.NewInt(1)))
			if p > 1 {
				vals = append(vals, new(big.Int).Exp(ten, big.NewInt(int64(p-1)), nil))
			}
			for _, v := range vals {
				if v.Cmp(top) >= 0 {
					continue
				}
				for _, sign := range []int64{1, -1} {
					u := new(big.Int).Mul(v, big.NewInt(sign))
					for _, dt := range []DataType{DECN, NUMN} {
						dec, err := NewDecimal(p, s)
						if err != nil {
							fail("decimal/new", "NewDecimal(%d,%d): %v", p, s, err)
							continue
						}
						dec.i.Set(u)
						evals++
						distinct[fmt.Sprintf("dec/%d/%d/%s", p, s, u)] = true
						guard("decimal", func() {
							bs, err := dt.Bytes(le, dec, int64(dec.ByteSize()))
							if err != nil {
								fail("decimal/encode", "%v(%d,%d) %s: %v", dt, p, s, u, err)
								return
							}
							mag := new(big.Int).Abs(u).Bytes()
							want := make([]byte, dec.ByteSize())
							copy(want[len(want)-len(mag):], mag)
							if u.Sign() < 0 {
								want[0] = 1
							}
							if !bytes.Equal(bs, want) {
								fail("decimal/layout", "%v(%d,%d) %s encodes to % x, reference % x", dt, p, s, u, bs, want)
							}
							got, err := dt.GoValue(le, bs)
							if err != nil {
								fail("decimal/decode", "%v(%d,%d) %s: %v", dt, p, s, u, err)
								return
							}
							gd, ok := got.(*Decimal)
							if !ok || gd == nil || gd.Int().Cmp(u) != 0 {
								fail("decimal/roundtrip", "%v(%d,%d) %s -> % x -> %v", dt, p, s, u, bs, got)
							}
						})
					}
				}
			}
		}
	}

	// ---- calendar: every day of years 1..9999
	epoch1900 := c04DaysFromCivil(1900, 1, 1)
	first, last := c04DaysFromCivil(1, 1, 1), c04DaysFromCivil(9999, 12, 31)
	step := 1
	if !thorough {
		step = 3
	}
	var prev asetime.ASEDuration
	for day := first; day <= last; day += step {
		y, m, d := c04Civil(day)
		tm := time.Date(y, time.Month(m), d, 0, 0, 0, 0, time.UTC)
		if ty, tmn, td := tm.Date(); ty != y || int(tmn) != m || td != d {
			fail("calendar/reference", "reference civil(%d) = %d-%d-%d disagrees with package time", day, y, m, d)
		}
		evals++
		dur := asetime.DurationFromDateTime(tm)
		if day > first && step == 1 && dur-prev != asetime.Day {
			fail("calendar/duration-step", "DurationFromDateTime(%v) - previous day = %d us", tm, int(dur-prev))
		}
		prev = dur
		// bigdatetime: microseconds since 0000-01-01
		wantUs := uint64(day-c04DaysFromCivil(0, 1, 1)) * 86400000000
		if got := asetime.TimeToMicroseconds(tm); got != wantUs {
			fail("calendar/time-to-us", "TimeToMicroseconds(%v) = %d, reference %d", tm, got, wantUs)
		}
		if back := asetime.MicrosecondsToTime(wantUs); !back.Equal(tm) {
			fail("calendar/us-to-time", "MicrosecondsToTime(%d) = %v, want %v", wantUs, back, tm)
		}
		if uint64(dur) != wantUs {
			fail("calendar/duration", "DurationFromDateTime(%v) = %d, reference %d", tm, uint64(dur), wantUs)
		}
		// DATE: days since 1900-01-01, signed 32 bit
		rel := int32(day - epoch1900)
		w := []byte{byte(rel), byte(uint32(rel) >> 8), byte(uint32(rel) >> 16), byte(uint32(rel) >> 24)}
		eqT := func(want time.Time) func(interface{}) bool {
			return func(g interface{}) bool { r, ok := g.(time.Time); return ok && r.Equal(want) }
		}
		rt("date", DATE, tm, 4, w, eqT(tm))
		dayNo := (day - first) / step
		if dayNo%5 == 0 {
			rt("daten", DATEN, tm, 4, w, eqT(tm))
			// BIGDATETIMEN with a time of day
			us := int64(rng.Intn(86400)) * 1000000
			us += int64(rng.Intn(1000000))
			tb := tm.Add(time.Duration(us) * time.Microsecond)
			wb := make([]byte, 8)
			le.PutUint64(wb, wantUs+uint64(us))
			rt("bigdatetimen", BIGDATETIMEN, tb, 8, wb, eqT(tb))
		}
		// DATETIME: days since 1900 (signed) and 1/300 s ticks; the type starts at 1753-01-01
		if y >= 1753 && dayNo%3 == 0 {
			tick := rng.Intn(25920000)
			switch dayNo % 9 {
			case 0:
				tick = 0
			case 3:
				tick = 25919999
			}
			// a tick is 1/300 s: the exact time of the tick in microseconds, rounded down
			tt := tm.Add(time.Duration(int64(tick)*10000/3) * time.Microsecond)
			wd := make([]byte, 8)
			le.PutUint32(wd[:4], uint32(rel))
			le.PutUint32(wd[4:], uint32(tick))
			key := "datetime"
			if y < 1900 {
				key = "datetime-before-1900"
			}
			evals++
			guard(key, func() {
				got, err := DATETIME.GoValue(le, wd)
				if err != nil {
					fail(key+"/decode", "% x: %v", wd, err)
					return
				}
				gt, ok := got.(time.Time)
				if !ok || gt.Sub(tt) > 3334*time.Microsecond || tt.Sub(gt) > 3334*time.Microsecond {
					fail(key+"/decode-value", "days %d tick %d decodes to %v, reference %v", rel, tick, got, tt)
					return
				}
				bs, err := DATETIME.Bytes(le, gt, 8)
				if err != nil {
					fail(key+"/encode", "%v: %v", gt, err)
					return
				}
				if !bytes.Equal(bs, wd) {
					fail(key+"/roundtrip", "days %d tick %d -> %v -> % x, want % x", rel, tick, gt, bs, wd)
				}
			})
		}
	}
	// ---- SHORTDATE (smalldatetime): days since 1900 (16 bit) and minutes
	for days := 0; days < 65536; days += 1 + days%7 {
		for _, mins := range []int{0, 1, 59, 60, 719, 1439} {
			tm := time.Date(1900, 1, 1, 0, 0, 0, 0, time.UTC).AddDate(0, 0, days).Add(time.Duration(mins) * time.Minute)
			w := []byte{byte(days), byte(days >> 8), byte(mins), byte(mins >> 8)}
			rt("shortdate", SHORTDATE, tm, 4, w, func(g interface{}) bool { r, ok := g.(time.Time); return ok && r.Equal(tm) })
		}
	}
	// ---- TIME: 1/300 s ticks since midnight
	tstep := 997
	if thorough {
		tstep = 7
	}
	for tick := 0; tick < 25920000; tick += tstep {
		w := []byte{byte(tick), byte(tick >> 8), byte(tick >> 16), byte(tick >> 24)}
		evals++
		guard("time", func() {
			got, err := TIME.GoValue(le, w)
			if err != nil {
				fail("time/decode", "tick %d: %v", tick, err)
				return
			}
			gt, ok := got.(time.Time)
			if !ok {
				fail("time/decode", "tick %d: %T", tick, got)
				return
			}
			us := int64(gt.Hour())*3600000000 + int64(gt.Minute())*60000000 + int64(gt.Second())*1000000 + int64(gt.Nanosecond())/1000
			if d := us - int64(tick)*10000/3; d > 3334 || d < -3334 {
				fail("time/decode-value", "tick %d decodes to %v", tick, gt)
			}
			bs, err := TIME.Bytes(le, gt, 4)
			if err != nil || !bytes.Equal(bs, w) {
				fail("time/roundtrip", "tick %d -> %v -> % x (%v)", tick, gt, bs, err)
			}
		})
	}
	// ---- BIGTIMEN: microseconds since midnight
	for i := 0; i < n; i++ {
		us := uint64(rng.Int63n(86400000000))
		if i < 4 {
			us = []uint64{0, 1, 999999, 86399999999}[i]
		}
		tm := time.Date(1, 1, 1, 0, 0, 0, 0, time.UTC).Add(time.Duration(us) * time.Microsecond)
		w := make([]byte, 8)
		le.PutUint64(w, us)
		rt("bigtimen", BIGTIMEN, tm, 8, w, func(g interface{}) bool {
			r, ok := g.(time.Time)
			return ok && r.Hour() == tm.Hour() && r.Minute() == tm.Minute() && r.Second() == tm.Second() && r.Nanosecond() == tm.Nanosecond()
		})
	}
	// ---- binary and character data
	for i := 0; i < 300; i++ {
		ln := 1 + rng.Intn(300)
		if i < 3 {
			ln = []int{1, 255, 256}[i]
		}
		b := make([]byte, ln)
		rng.Read(b)
		for _, dt := range []DataType{BINARY, VARBINARY, LONGBINARY, IMAGE} {
			rt("binary", dt, b, int64(ln), b, func(g interface{}) bool { r, ok := g.([]byte); return ok && bytes.Equal(r, b) })
		}
		runes := make([]rune, 1+rng.Intn(40))
		for j := range runes {
			switch rng.Intn(4) {
			case 0:
				runes[j] = rune(0x20 + rng.Intn(0x5f))
			case 1:
				runes[j] = rune(0xa0 + rng.Intn(0x700))
			case 2:
				runes[j] = rune(0x4e00 + rng.Intn(0x5000))
			default:
				runes[j] = rune(0x10000 + rng.Intn(0xfffff))
			}
		}
		s := string(runes)
		for _, dt := range []DataType{CHAR, VARCHAR, LONGCHAR, TEXT} {
			rt("char", dt, s, int64(len(s)), []byte(s), func(g interface{}) bool { return g == s })
		}
		u16 := utf16.Encode(runes)
		wu := make([]byte, 2*len(u16))
		for j, c := range u16 {
			wu[2*j], wu[2*j+1] = byte(c), byte(c>>8)
		}
		rt("unitext", UNITEXT, s, int64(len(wu)), wu, func(g interface{}) bool { return g == s })
	}
	// ---- NULL: zero length both ways
	for _, dt := range []DataType{INTN, UINTN, FLTN, MONEYN, DATEN, TIMEN, DATETIMEN, BIGDATETIMEN, BIGTIMEN, DECN, NUMN, VARCHAR, VARBINARY, LONGCHAR, LONGBINARY} {
		evals++
		guard("null", func() {
			bs, err := dt.Bytes(le, nil, 0)
			if err != nil || len(bs) != 0 {
				fail("null/encode", "%v: % x, %v", dt, bs, err)
			}
			got, err := dt.GoValue(le, []byte{})
			isNil := got == nil
			if d, ok := got.(*Decimal); ok && (d == nil || d.i == nil) {
				isNil = true // documented representation of a NULL decimal
			}
			if err != nil || !isNil {
				fail("null/decode", "%v decodes zero length to %v (%T), %v", dt, got, got, err)
			}
		})
	}

	out, _ := json.Marshal(map[string]interface{}{"evaluations": evals, "distinct": len(distinct), "failures": failures})
	fmt.Printf("ISLAND %s\n", out)
	if len(failures) > 0 {
		t.Fail()
	}
}
