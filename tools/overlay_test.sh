#!/bin/bash
# overlay_test.sh <repo-dir> <package-dir-relative> <test-file> [go test args...]
# Runs an in-package test against the real code without writing into the repo.
set -e
export GOFLAGS=-mod=mod GOPROXY=off GOSUMDB=off GOTOOLCHAIN=local
repo=$1; pkg=$2; tf=$(readlink -f "$3"); shift 3
tmp=$(mktemp -d /tmp/ovl.XXXXXX)
trap 'rm -rf "$tmp"' EXIT
name=$(basename "$tf")
case "$name" in *_test.go) ;; *) name="${name%.go}_test.go";; esac
cat > "$tmp/ov.json" <<J
{"Replace": {"$repo/$pkg/zz_verif_$name": "$tf"}}
J
cd "$repo/$pkg"
go test -overlay "$tmp/ov.json" -vet=off -count=1 -timeout 120s "$@" .
