#!/bin/bash
# import_seed.sh <property> <k> : copy /tmp/seed/<property>/_seed/<k> to /verif/seeded/<property>-<k>
id=$1; k=$2; src=/tmp/seed/$id/_seed/$k; dst=/verif/seeded/$id-$k
mkdir -p $dst && cp $src/patch.diff $src/demo_test.go $dst/ && cp $src/meta.json $dst/meta.agent.json && echo imported $dst
