#!/usr/bin/env python3
# unsat_core.py <file.smt2> : prints the asserts in z3's unsat core (debug aid for vacuity)
import sys,subprocess,re
src=open(sys.argv[1]).read().split('\n')
out=['(set-option :produce-unsat-cores true)']
names={}
i=0
for l in src:
    if l.startswith('(assert ') and l.endswith(')'):
        i+=1
        n='a%d'%i
        names[n]=l
        out.append('(assert (! %s :named %s))'%(l[8:-1],n))
    elif l.startswith('(check-sat') :
        out.append('(check-sat)'); out.append('(get-unsat-core)')
    elif l.startswith('(get-') or l.startswith('(exit'):
        pass
    else:
        out.append(l)
open('/tmp/core.smt2','w').write('\n'.join(out))
r=subprocess.run(['z3-new','-T:120','/tmp/core.smt2'],capture_output=True,text=True).stdout
print(r.split('\n')[0])
core=re.findall(r'a\d+',r.split('\n',1)[1] if '\n' in r else '')
for n in core:
    print(n, names[n][:int(sys.argv[2]) if len(sys.argv)>2 else 300])
