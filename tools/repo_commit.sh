#!/bin/bash
# repo_commit.sh hook "<msg>"   -> commits only */contracts_verif.go files
# repo_commit.sh fix "<msg>"    -> commits everything except contracts_verif.go files (must be clean of hook edits)
cd /repo || exit 2
kind=$1; msg=$2
if [ "$kind" = hook ]; then
  git add -- '*contracts_verif.go' contracts_verif.go 2>/dev/null
  git commit -q -m "$msg" -- $(git diff --cached --name-only | grep contracts_verif.go) && git log --oneline | head -1
else
  if git status --porcelain | grep -q contracts_verif.go; then echo "uncommitted hook edits present; commit them first with: repo_commit.sh hook"; exit 1; fi
  git add -A && git commit -q -m "$msg" && git log --oneline | head -1
fi
