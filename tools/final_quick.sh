#!/bin/bash
# final_quick.sh: runs every quick check once on the unchanged tree (refreshes /verif/evidence) and
# reports anything that is not a clean pass.
cd /verif || exit 2
[ -n "$(git -C /repo status --porcelain)" ] && { echo "repo not clean"; exit 2; }
bad=0
for p in C01 C02 C03 C04 C05 C06 C07 C08 C09 C10 C11 C12 C13 C14 C15 C16 C17 C18 C19 C20; do
  out=$(./check $p --tier quick 2>&1); rc=$?
  echo "$out" | tail -1
  if [ $rc -ne 0 ] || echo "$out" | grep -q VIOLATION; then echo "  !! $p rc=$rc"; echo "$out" | grep VIOLATION | head -3; bad=1; fi
done
exit $bad
