#!/bin/bash
# seed_matrix.sh <seed-dir-name> <prop> [<prop>...] [-- thorough]
# Confirms the seed on a scratch worktree of /repo HEAD (suite passes, demo fails with patch, passes without),
# then applies it to /repo, runs the checks and reverts. Prints a one-line summary per step.
seed=$1; shift
dir=/verif/seeded/$seed
export GOFLAGS=-mod=mod GOPROXY=off GOSUMDB=off GOTOOLCHAIN=local
cd /repo || exit 2
[ -n "$(git status --porcelain)" ] && { echo "repo not clean"; exit 2; }
if ! git apply --check $dir/patch.diff 2>/dev/null; then echo "$seed: patch does not apply to HEAD"; exit 3; fi
pkg=$(head -1 $dir/demo_test.go | sed -n 's/.*place in: *\([^ ]*\).*/\1/p'); pkg=${pkg%/}
[ -z "$pkg" ] && pkg=.
wt=$(mktemp -d /tmp/seedwt.XXXX); git worktree add -q --detach $wt HEAD
( cd $wt && cp $dir/demo_test.go $pkg/zz_seed_demo_test.go && (go test -vet=off -count=1 ./$pkg/ >/dev/null 2>&1 && echo "$seed: demo passes without patch" || echo "$seed: DEMO FAILS WITHOUT PATCH") ; rm $pkg/zz_seed_demo_test.go
  git apply $dir/patch.diff && (go build ./... && go test -vet=off -count=1 ./... >/dev/null 2>&1 && echo "$seed: suite passes with patch" || echo "$seed: SUITE FAILS WITH PATCH")
  cp $dir/demo_test.go $pkg/zz_seed_demo_test.go && (go test -vet=off -count=1 ./$pkg/ >/dev/null 2>&1 && echo "$seed: DEMO PASSES WITH PATCH" || echo "$seed: demo fails with patch") )
git worktree remove --force $wt
git apply $dir/patch.diff
tier=quick
for p in "$@"; do
  if [ "$p" = "--" ]; then tier=thorough; continue; fi
  /verif/check $p --tier $tier 2>&1 | grep -E "VIOLATION|property " | sed "s/^/$seed [$p $tier]: /" | cut -c1-230
done
git apply -R $dir/patch.diff
git status --porcelain
