#!/bin/bash
# run_all_seeds.sh: confirm every kept seeded change and run the related checks on it.
# Output: /verif/seeded/matrix.log (one block per seed). Evidence files are restored afterwards.
cd /verif || exit 2
log=/verif/seeded/matrix.log; : > $log
declare -A extra=( [C01-2]="C15" [C08-2]="C03" [C10-1]="C02" [C06-1]="C09" [C06-2]="C11" [C11-2]="C06" [C02-2]="C03" [C03-2]="C07" [C04-2]="C06" [C09-1]="C08" )
for d in seeded/C*-*/; do
  s=$(basename $d); p=${s%-*}
  echo "== $s" >> $log
  tools/seed_matrix.sh $s $p ${extra[$s]} >> $log 2>&1
  if ! grep -q "VIOLATION property=$p" <(sed -n "/== $s/,\$p" $log); then
    case $p in C15|C16|C17|C19|C20|C18|C14|C09|C05|C04) tools/seed_matrix.sh $s -- $p 2>&1 | grep -E "VIOLATION|property " >> $log;; esac
  fi
done
git -C /verif checkout -- evidence 2>/dev/null
echo done >> $log
