#!/bin/bash
# rebaseline_all.sh: recompute the per-tier baselines of every registered property on the
# unchanged tree (run after engine or contract changes), one property at a time.
cd /verif || exit 2
[ -n "$(git -C /repo status --porcelain)" ] && { echo "repo not clean"; exit 2; }
for p in C20 C18 C16 C17 C05 C09 C14 C19 C04 C12 C13 C11 C03 C08 C02 C15 C06 C07 C10 C01; do
  ./check $p --rebaseline 2>&1 | tail -1
  ./check $p --tier thorough --rebaseline 2>&1 | tail -1
done
