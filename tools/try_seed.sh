#!/bin/bash
# try_seed.sh <patch.diff> <prop> [<prop>...]: apply a seeded change to /repo, run the checks, revert.
patch=$(readlink -f "$1"); shift
cd /repo || exit 2
if [ -n "$(git status --porcelain)" ]; then echo "repo not clean"; exit 2; fi
git apply "$patch" || { echo "patch does not apply"; exit 2; }
for p in "$@"; do
  echo "== $p"
  /verif/check "$p" --tier quick 2>&1 | grep -E "VIOLATION|KNOWN|property " | cut -c1-260
done
git apply -R "$patch"
git status --porcelain
