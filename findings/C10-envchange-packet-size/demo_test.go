package tds

import (
	"bytes"
	"context"
	"sync"
	"testing"
)

type findingSink struct{ bytes.Buffer }

func (*findingSink) Close() error { return nil }

// The packet size announced by the server in an environment change was taken over
// unchecked: a value that does not fit the 16 bit packet length (or is not larger
// than the packet header) made the next write on the connection panic
// (make with a negative length) or produce packets with a truncated length field.
func TestFinding_EnvChangePacketSize(t *testing.T) {
	for _, size := range []string{"-5", "0", "8", "70000", "99999999999"} {
		conn := &Conn{conn: &findingSink{}, info: &Info{}, packetSize: 512, ctx: context.Background()}
		ch := &Channel{tdsConn: conn, CurrentHeaderType: TDS_BUF_NORMAL, envChangeHooksLock: &sync.Mutex{}, eedHooksLock: &sync.Mutex{}}
		ch.queueTx = NewPacketQueue(conn.PacketSize)
		ch.queueRx = NewPacketQueue(conn.PacketSize)
		pkg := &EnvChangePackage{members: []EnvChangePackageField{{Type: TDS_ENV_PACKSIZE, NewValue: size, OldValue: "512"}}}
		_, err := ch.handleSpecialPackage(pkg)
		func() {
			defer func() {
				if r := recover(); r != nil {
					t.Errorf("packet size %q (handleSpecialPackage error: %v): write panics: %v", size, err, r)
				}
			}()
			if (conn.packetSize >= 0 && conn.packetSize <= 8) || conn.packetSize > 1<<20 {
				return // a body size of zero makes WriteBytes allocate packets forever, a huge one exhausts memory
			}
			if werr := ch.queueTx.WriteBytes([]byte{1, 2, 3}); werr != nil {
				return
			}
			p := ch.queueTx.queue[0]
			if int(p.Header.Length) != 8+len(p.Data) {
				t.Errorf("packet size %q (handleSpecialPackage error: %v): header length %d for %d body bytes", size, err, p.Header.Length, len(p.Data))
			}
		}()
		if err == nil && (conn.packetSize <= 8 || conn.packetSize > 65535) {
			t.Errorf("packet size %q accepted, connection packet size is now %d", size, conn.packetSize)
		}
	}
}
