package tds

import (
	"bytes"
	"context"
	"sync"
	"testing"
)

type findingTeardownWire struct{ bytes.Buffer }

func (*findingTeardownWire) Close() error { return nil }

// Closing a logical channel announces the teardown with a header-only packet. The
// packet was created with the full packet size and only its body slice was cleared,
// so a packet of the full size (header length 512) with 504 zero bytes of body was
// written instead of the 8 byte header.
func TestFinding_TeardownPacketIsHeaderOnly(t *testing.T) {
	wire := &findingTeardownWire{}
	conn := &Conn{conn: wire, info: &Info{}, packetSize: 512, ctx: context.Background(),
		tdsChannels: map[int]*Channel{}, tdsChannelsLock: &sync.RWMutex{}}
	ch := &Channel{tdsConn: conn, channelId: 3, CurrentHeaderType: TDS_BUF_NORMAL,
		envChangeHooksLock: &sync.Mutex{}, eedHooksLock: &sync.Mutex{},
		packageCh: make(chan Package, 1), errCh: make(chan error, 1)}
	ch.queueTx = NewPacketQueue(conn.PacketSize)
	ch.queueRx = NewPacketQueue(conn.PacketSize)
	conn.tdsChannels[3] = ch
	if err := ch.Close(); err != nil {
		t.Fatal(err)
	}
	bs := wire.Bytes()
	if len(bs) != PacketHeaderSize {
		t.Errorf("teardown wrote %d bytes, header length field %d; want a header-only packet of %d bytes", len(bs), int(bs[2])<<8|int(bs[3]), PacketHeaderSize)
	}
	if PacketHeaderType(bs[0]) != TDS_BUF_CLOSE {
		t.Errorf("message type %v", PacketHeaderType(bs[0]))
	}
}
