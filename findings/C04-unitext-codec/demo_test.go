package asetypes

import (
	"bytes"
	"encoding/binary"
	"testing"
	"unicode/utf16"
)

// UNITEXT is UTF-16LE on the wire. Bytes wrote code unit i at byte offset i
// (not 2*i), and goValue decoded byte-wise (and indexed past the end when the
// last byte looked like a surrogate).
func TestFinding_UnitextCodec(t *testing.T) {
	for _, s := range []string{"a", "ab", "Āb", "héllo wörld", "日本語", "𝄞 clef", "x\U0001F600y"} {
		want := make([]byte, 0)
		for _, u := range utf16.Encode([]rune(s)) {
			want = append(want, byte(u), byte(u>>8))
		}
		got, err := UNITEXT.Bytes(binary.LittleEndian, s, 0)
		if err != nil {
			t.Fatalf("%q: %v", s, err)
		}
		if !bytes.Equal(got, want) {
			t.Errorf("%q: encoded % x, want % x", s, got, want)
		}
		func() {
			defer func() {
				if r := recover(); r != nil {
					t.Errorf("%q: decode panics: %v", s, r)
				}
			}()
			v, err := UNITEXT.GoValue(binary.LittleEndian, want)
			if err != nil || v != s {
				t.Errorf("%q: decoded %q, %v", s, v, err)
			}
		}()
	}
	// a lone trailing byte that looks like a surrogate must not crash
	func() {
		defer func() {
			if r := recover(); r != nil {
				t.Errorf("decode of odd input panics: %v", r)
			}
		}()
		UNITEXT.GoValue(binary.LittleEndian, []byte{0x61, 0x00, 0xd8})
	}()
}
