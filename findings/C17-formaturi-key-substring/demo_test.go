package dsn

import "testing"

// FormatURI decided "a userstorekey was given" by searching the encoded query
// string for the substring "KEY", so any property or database text containing
// "KEY" made it drop user, password, host and port from the URI.
func TestFinding_FormatURIKeySubstring(t *testing.T) {
	src := Info{Host: "h", Port: "5000", Username: "u", Password: "p", Database: "MONKEY"}
	txt, err := FormatURI(&src)
	if err != nil {
		t.Fatal(err)
	}
	var back Info
	if err := ParseURI("ase"+txt, &back); err != nil {
		t.Fatalf("ParseURI(%q): %v", txt, err)
	}
	if back != src {
		t.Errorf("round trip %+v -> %q -> %+v", src, txt, back)
	}
}
