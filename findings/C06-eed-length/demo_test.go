package tds

import "testing"

// EEDPackage.WriteTo announced 11 + strings bytes after the length field although 16 + strings
// bytes follow (the comment forgot the three length prefixes and counted the message length as
// one byte), so the library could not read back its own encoding.
func TestFinding_EEDLengthField(t *testing.T) {
	src := EEDPackage{MsgNumber: 4002, State: 1, Class: 14, SQLState: []byte("ZZZZZ"), Status: TDS_NO_EED, TranState: 1,
		Msg: "Login failed.", ServerName: "ASE", ProcName: "p", LineNr: 7}
	tx := NewPacketQueue(func() int { return 4096 })
	if err := src.WriteTo(tx); err != nil {
		t.Fatal(err)
	}
	bs := tx.queue[0].Data[:tx.indexData]
	announced := int(bs[1]) | int(bs[2])<<8
	if announced != len(bs)-3 {
		t.Errorf("length field says %d, %d bytes follow", announced, len(bs)-3)
	}
	rx := NewPacketQueue(func() int { return 4096 })
	p := NewPacket(8 + len(bs))
	copy(p.Data, bs)
	p.Header.Status = TDS_BUFSTAT_EOM
	rx.AddPacket(p)
	if tok, _ := rx.Byte(); Token(tok) != TDS_EED {
		t.Fatalf("token %x", tok)
	}
	var back EEDPackage
	if err := back.ReadFrom(rx); err != nil {
		t.Errorf("reading back: %v", err)
	} else if back.Msg != src.Msg || back.LineNr != src.LineNr || back.ProcName != src.ProcName {
		t.Errorf("read back %+v", back)
	}
}
