package tds

import (
	"bytes"
	"context"
	"encoding/binary"
	"testing"
)

type findingWire struct{ bytes.Buffer }

func (*findingWire) Close() error { return nil }

type findingRaw struct{ n int }

func (p findingRaw) ReadFrom(BytesChannel) error { return nil }
func (p findingRaw) WriteTo(ch BytesChannel) error {
	return ch.WriteBytes(bytes.Repeat([]byte{0xAB}, p.n))
}
func (p findingRaw) String() string { return "raw" }

// A message whose encoding is an exact multiple of the packet body size was sent as
// full packets only, none of them carrying the end-of-message flag, so the
// server never saw the end of the request.
func TestFinding_EOMOnExactMultiple(t *testing.T) {
	for _, total := range []int{504, 1008, 503, 505, 1} {
		wire := &findingWire{}
		conn := &Conn{conn: wire, info: &Info{}, packetSize: 512, ctx: context.Background()}
		ch := &Channel{tdsConn: conn, CurrentHeaderType: TDS_BUF_NORMAL}
		ch.queueTx = NewPacketQueue(conn.PacketSize)
		ch.queueRx = NewPacketQueue(conn.PacketSize)
		if err := ch.SendPackage(context.Background(), findingRaw{total}); err != nil {
			t.Fatalf("total=%d: %v", total, err)
		}
		bs := wire.Bytes()
		body, eoms, lastEOM, packets := 0, 0, false, 0
		for len(bs) >= 8 {
			l := int(binary.BigEndian.Uint16(bs[2:4]))
			if l < 8 || l > len(bs) || l > 512 {
				t.Fatalf("total=%d: bad packet length %d", total, l)
			}
			lastEOM = bs[1]&byte(TDS_BUFSTAT_EOM) != 0
			if lastEOM {
				eoms++
			}
			if len(bs) > l && l != 512 {
				t.Errorf("total=%d: packet %d is not the last but not full (%d)", total, packets, l)
			}
			body += l - 8
			packets++
			bs = bs[l:]
		}
		if len(bs) != 0 || body != total {
			t.Errorf("total=%d: %d body bytes on the wire, %d trailing", total, body, len(bs))
		}
		if eoms != 1 || !lastEOM {
			t.Errorf("total=%d: %d packets, %d with EOM, last has EOM: %v", total, packets, eoms, lastEOM)
		}
	}
}
