package asetypes

import "testing"

// A negative scale passed the sanity check; String then sliced past the end
// of the digit string.
func TestFinding_NegativeScale(t *testing.T) {
	defer func() {
		if r := recover(); r != nil {
			t.Fatalf("panic: %v", r)
		}
	}()
	dec, err := NewDecimal(5, -1)
	if err == nil {
		_ = dec.String()
		t.Fatalf("NewDecimal(5, -1) accepted")
	}
	if _, err := NewDecimalString(5, -3, "12"); err == nil {
		t.Fatalf("NewDecimalString(5, -3) accepted")
	}
}
