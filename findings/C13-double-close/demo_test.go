package tds

import (
	"bytes"
	"context"
	"errors"
	"sync"
	"testing"
)

type findingCloseWire struct{ bytes.Buffer }

func (*findingCloseWire) Close() error { return nil }

// A second Close of a channel closed the nil package channel and panicked instead of
// reporting that the channel is closed.
func TestFinding_SecondCloseReportsClosed(t *testing.T) {
	conn := &Conn{conn: &findingCloseWire{}, info: &Info{}, packetSize: 512, ctx: context.Background(),
		errCh: make(chan error, 1), tdsChannels: map[int]*Channel{}, tdsChannelsLock: &sync.RWMutex{}}
	ch := &Channel{tdsConn: conn, channelId: 2, CurrentHeaderType: TDS_BUF_NORMAL,
		envChangeHooksLock: &sync.Mutex{}, eedHooksLock: &sync.Mutex{},
		packageCh: make(chan Package, 1), errCh: make(chan error, 1)}
	ch.queueTx = NewPacketQueue(conn.PacketSize)
	ch.queueRx = NewPacketQueue(conn.PacketSize)
	conn.tdsChannels[2] = ch
	if err := ch.Close(); err != nil {
		t.Fatal(err)
	}
	defer func() {
		if r := recover(); r != nil {
			t.Errorf("second Close panics: %v", r)
		}
	}()
	if err := ch.Close(); err == nil || !errors.Is(err, ErrChannelClosed) {
		t.Errorf("second Close returned %v, want an error matching ErrChannelClosed", err)
	}
}
