package tds

import "testing"

// A TDS_LANGUAGE package whose declared length is 0 made ReadFrom call
// ch.String(-1), which panics in make([]byte, -1).
func TestFinding_LanguageZeroLength(t *testing.T) {
	q := NewPacketQueue(func() int { return 512 })
	p := NewPacket(512)
	p.Data = []byte{0, 0, 0, 0, 0} // length 0, status 0
	q.AddPacket(p)
	defer func() {
		if r := recover(); r != nil {
			t.Fatalf("panic: %v", r)
		}
	}()
	pkg := &LanguagePackage{}
	if err := pkg.ReadFrom(q); err == nil {
		t.Fatalf("expected an error for declared length 0")
	}
}
