package asetypes

import "testing"

// SetString silently changed the value of numerals it cannot represent:
// more fraction digits than the scale, more than one point, more digits
// than the precision.
func TestFinding_SetStringUnrepresentable(t *testing.T) {
	for _, tc := range []struct {
		p, s int
		in   string
	}{
		{5, 1, "1.25"},    // was stored as 125 -> "12.5"
		{5, 2, "1.2.3"},   // was stored as 1200 -> "12.0"
		{3, 1, "1234.5"},  // 5 digits at precision 3 -> printed as "12.345"
		{4, 0, "12345"},   // too many digits
		{4, 4, "1.2345"},  // integer digit at precision == scale
	} {
		dec, err := NewDecimalString(tc.p, tc.s, tc.in)
		if err == nil {
			t.Errorf("(%d,%d) %q accepted, prints %q", tc.p, tc.s, tc.in, dec.String())
		}
	}
	// representable values are still accepted and exact
	for _, tc := range []struct {
		p, s    int
		in, out string
	}{
		{5, 2, "1.25", "1.25"}, {5, 2, "-0.5", "-0.5"}, {5, 2, "123", "123.0"}, {5, 0, "99999", "99999.0"},
		{4, 4, "0.1234", "0.1234"}, {38, 0, "99999999999999999999999999999999999999", "99999999999999999999999999999999999999.0"},
		{5, 2, " 7.1 ", "7.1"}, {5, 2, "000.10", "0.1"}, {5, 0, "1.0", "1.0"}, {5, 2, "1.2500", "1.25"}, {3, 0, "-999.000", "-999.0"},
	} {
		dec, err := NewDecimalString(tc.p, tc.s, tc.in)
		if err != nil {
			t.Errorf("(%d,%d) %q rejected: %v", tc.p, tc.s, tc.in, err)
			continue
		}
		if got := dec.String(); got != tc.out {
			t.Errorf("(%d,%d) %q prints %q, want %q", tc.p, tc.s, tc.in, got, tc.out)
		}
	}
}
