package tds

import (
	"bytes"
	"testing"
)

// PacketQueue.Read assigned the result of Bytes to its own parameter instead
// of copying into the caller's buffer: the caller's buffer stayed untouched.
func TestFinding_ReadFillsBuffer(t *testing.T) {
	q := NewPacketQueue(func() int { return 16 })
	p1, p2 := NewPacket(16), NewPacket(16)
	p1.Data = []byte{1, 2, 3}
	p2.Data = []byte{4, 5}
	q.AddPacket(p1)
	q.AddPacket(p2)
	buf := make([]byte, 4)
	n, err := q.Read(buf)
	if err != nil || n != 4 {
		t.Fatalf("Read: %d, %v", n, err)
	}
	if !bytes.Equal(buf, []byte{1, 2, 3, 4}) {
		t.Fatalf("buffer not filled: %v", buf)
	}
}
