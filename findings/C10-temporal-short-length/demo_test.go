package asetypes

import (
	"encoding/binary"
	"testing"
)

// Nullable temporal types carry a server-chosen length. DATEN with 1..3 bytes
// and BIGDATETIMEN with 1..7 bytes made goValue index past the slice.
func TestFinding_TemporalShortLength(t *testing.T) {
	for _, tc := range []struct {
		t DataType
		n int
	}{{DATEN, 1}, {DATEN, 2}, {DATEN, 3}, {DATEN, 5}, {BIGDATETIMEN, 1}, {BIGDATETIMEN, 3}, {BIGDATETIMEN, 7}, {BIGDATETIMEN, 9}} {
		func() {
			defer func() {
				if r := recover(); r != nil {
					t.Errorf("%v with %d bytes: panic: %v", tc.t, tc.n, r)
				}
			}()
			if _, err := tc.t.GoValue(binary.LittleEndian, make([]byte, tc.n)); err == nil {
				t.Errorf("%v with %d bytes: expected an error", tc.t, tc.n)
			}
		}()
	}
	// the valid lengths still decode
	if _, err := DATEN.GoValue(binary.LittleEndian, make([]byte, 4)); err != nil {
		t.Errorf("DATEN(4): %v", err)
	}
	if v, err := DATEN.GoValue(binary.LittleEndian, nil); err != nil || v != nil {
		t.Errorf("DATEN(0): %v %v", v, err)
	}
	if _, err := BIGDATETIMEN.GoValue(binary.LittleEndian, make([]byte, 8)); err != nil {
		t.Errorf("BIGDATETIMEN(8): %v", err)
	}
}
