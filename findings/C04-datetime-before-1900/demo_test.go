package asetypes

import (
	"encoding/binary"
	"testing"
	"time"
)

// DATETIME values before 1900-01-01 with a time of day were encoded with the day count
// truncated towards zero and a negative tick count, so they did not decode to the value
// that was encoded (and did not match the TDS layout: days floor-divided, ticks 0..25919999).
func TestFinding_DatetimeBefore1900(t *testing.T) {
	for _, v := range []time.Time{
		time.Date(1753, 1, 1, 5, 17, 20, 0, time.UTC),
		time.Date(1899, 12, 31, 23, 59, 59, 0, time.UTC),
		time.Date(1899, 12, 31, 0, 0, 0, 0, time.UTC),
		time.Date(1900, 1, 1, 12, 0, 0, 0, time.UTC),
	} {
		bs, err := DATETIME.Bytes(binary.LittleEndian, v, 8)
		if err != nil {
			t.Fatal(err)
		}
		ticks := int32(binary.LittleEndian.Uint32(bs[4:]))
		if ticks < 0 || ticks >= 25920000 {
			t.Errorf("%v: tick count %d outside a day", v, ticks)
		}
		back, err := DATETIME.GoValue(binary.LittleEndian, bs)
		if err != nil {
			t.Fatal(err)
		}
		if d := back.(time.Time).Sub(v); d > 4*time.Millisecond || d < -4*time.Millisecond {
			t.Errorf("%v -> % x -> %v", v, bs, back)
		}
	}
}
