package tds

import (
	"bytes"
	"context"
	"sync"
	"testing"
	"time"
)

type findingLoginWire struct{ bytes.Buffer }

func (*findingLoginWire) Close() error { return nil }

// Login tested the final DONE with done.Status&TDS_DONE_FINAL != TDS_DONE_FINAL. TDS_DONE_FINAL
// is 0, so the test is constantly false and any DONE - also one announcing more results or
// an error - completed the login successfully.
func TestFinding_LoginAcceptsNonFinalDone(t *testing.T) {
	for _, status := range []DoneState{TDS_DONE_MORE, TDS_DONE_ERROR, TDS_DONE_MORE | TDS_DONE_ERROR} {
		caps, err := NewCapabilityPackage(nil, nil, nil)
		if err != nil {
			t.Fatal(err)
		}
		conn := &Conn{conn: &findingLoginWire{}, info: &Info{}, packetSize: 512, ctx: context.Background(),
			Caps: caps, errCh: make(chan error, 1), tdsChannels: map[int]*Channel{}, tdsChannelsLock: &sync.RWMutex{}}
		ch := &Channel{tdsConn: conn, CurrentHeaderType: TDS_BUF_NORMAL,
			envChangeHooksLock: &sync.Mutex{}, eedHooksLock: &sync.Mutex{},
			packageCh: make(chan Package, 4), errCh: make(chan error, 1)}
		ch.queueTx = NewPacketQueue(conn.PacketSize)
		ch.queueRx = NewPacketQueue(conn.PacketSize)
		// the server's reply: login acknowledged, but the DONE is not final
		ch.packageCh <- &LoginAckPackage{Status: TDS_LOG_SUCCEED}
		ch.packageCh <- &DonePackage{Status: status}
		ctx, cancel := context.WithTimeout(context.Background(), 200*time.Millisecond)
		err = ch.Login(ctx, &LoginConfig{DSN: &Info{}, Encrypt: 0})
		cancel()
		if err == nil {
			t.Errorf("DONE status %v: Login reported success although the reply does not end with a final DONE", status)
		}
	}
}
