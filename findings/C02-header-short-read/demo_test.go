package tds

import (
	"bytes"
	"context"
	"io"
	"testing"
	"time"
)

// chunkReader hands out its data in reads of at most n bytes, as a TCP
// connection may.
type findingChunkReader struct {
	data []byte
	n    int
}

func (r *findingChunkReader) Read(p []byte) (int, error) {
	if len(r.data) == 0 {
		return 0, io.EOF
	}
	n := r.n
	if n > len(p) {
		n = len(p)
	}
	if n > len(r.data) {
		n = len(r.data)
	}
	copy(p, r.data[:n])
	r.data = r.data[n:]
	return n, nil
}

// PacketHeader.ReadFrom issued a single Read for the 8 header bytes and reported
// an error when the transport returned fewer (with a nil error), so a response
// whose packet header was split over two reads killed the connection.
func TestFinding_HeaderSplitOverReads(t *testing.T) {
	packet := NewPacket(8 + 5)
	copy(packet.Data, []byte{1, 2, 3, 4, 5})
	packet.Header.MsgType = TDS_BUF_RESPONSE
	packet.Header.Status = TDS_BUFSTAT_EOM
	wire, err := packet.Bytes()
	if err != nil {
		t.Fatal(err)
	}
	for chunk := 1; chunk <= len(wire); chunk++ {
		got := &Packet{}
		n, err := got.ReadFrom(context.Background(), &findingChunkReader{data: append([]byte{}, wire...), n: chunk}, time.Second)
		if err != nil {
			t.Errorf("reads of %d bytes: %v", chunk, err)
			continue
		}
		if int(n) != len(wire) || got.Header != packet.Header || !bytes.Equal(got.Data, packet.Data) {
			t.Errorf("reads of %d bytes: n=%d packet=%v", chunk, n, got)
		}
	}
}
