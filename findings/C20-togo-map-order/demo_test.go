package dblib

import (
	"database/sql"
	"testing"
)

// ToGo looked the level up by ranging over the forward map; for levels with
// two preimages (ReadCommitted <- Default, ReadCommitted; Invalid <-
// WriteCommitted, Linearizable) the answer depended on map iteration order.
func TestFinding_ToGoDeterministic(t *testing.T) {
	for _, lvl := range []ASEIsolationLevel{ASELevelInvalid, ASELevelReadUncommitted, ASELevelReadCommitted, ASELevelRepeatableRead, ASELevelSerializableRead, 17} {
		first := lvl.ToGo()
		s := lvl.String()
		for i := 0; i < 2000; i++ {
			if g := lvl.ToGo(); g != first {
				t.Fatalf("level %d: ToGo gave %v and %v", lvl, first, g)
			}
			if g := lvl.String(); g != s {
				t.Fatalf("level %d: String gave %q and %q", lvl, s, g)
			}
		}
	}
	for _, l := range []sql.IsolationLevel{sql.LevelReadUncommitted, sql.LevelReadCommitted, sql.LevelRepeatableRead, sql.LevelSerializable} {
		a, err := ASEIsolationLevelFromGo(l)
		if err != nil || a.ToGo() != l {
			t.Fatalf("%v -> %v -> %v (%v)", l, a, a.ToGo(), err)
		}
	}
}
