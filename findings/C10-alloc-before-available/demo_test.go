package tds

import (
	"runtime"
	"testing"
)

// PacketQueue.Bytes allocates the requested number of bytes before it knows that so many
// are queued. A LANGUAGE package whose 32 bit length field says 16 MiB makes the parser
// allocate 16 MiB although only 14 bytes were received (with the top byte set: gigabytes).
// Not repaired: Bytes documents that the returned slice always has length n, also on a
// short read; see /verif/known_findings.txt. This demonstration FAILS on the current tree.
func TestFinding_AllocationBeforeBytesAreAvailable(t *testing.T) {
	in := []byte{byte(TDS_LANGUAGE), 0x09, 0x00, 0x00, 0x01, 0x00, 's', 'e', 'l', 'e', 'c', 't', ' ', '1'} // length 0x01000009
	rx := NewPacketQueue(func() int { return 512 })
	p := NewPacket(PacketHeaderSize + len(in))
	copy(p.Data, in)
	rx.AddPacket(p)
	tok, _ := rx.Byte()
	pkg, err := LookupPackage(Token(tok))
	if err != nil {
		t.Fatal(err)
	}
	var m0, m1 runtime.MemStats
	runtime.ReadMemStats(&m0)
	err = pkg.ReadFrom(rx)
	runtime.ReadMemStats(&m1)
	if d := m1.TotalAlloc - m0.TotalAlloc; d > 1<<20 {
		t.Errorf("%d bytes allocated while parsing %d received bytes (err = %v)", d, len(in), err)
	}
}
