package dsn

import "testing"

type findingTarget struct {
	Host string `json:"host" multiref:"hostname"`
	User string `json:"user"`
}

// ParseSimple indexed past its input for an unterminated quotation and sliced
// [1:0] for a value consisting of a single quotation mark; a quoted value with a
// leading space was cut at the opening quotation mark.
func TestFinding_ParseSimpleQuotes(t *testing.T) {
	for _, in := range []string{`host="b`, `host="`, `host='`, `host=" x"`, `host="a b`, `user=x host='`, `host=" "`, `host=""`} {
		func() {
			defer func() {
				if r := recover(); r != nil {
					t.Errorf("%q: panic: %v", in, r)
				}
			}()
			var tg findingTarget
			_ = ParseSimple(in, &tg)
		}()
	}
	var tg findingTarget
	if err := ParseSimple(`host=" x y" user="u"`, &tg); err != nil || tg.Host != " x y" || tg.User != "u" {
		t.Errorf("leading space: %v %+v", err, tg)
	}
	tg = findingTarget{}
	if err := ParseSimple(`host="" user=u`, &tg); err != nil || tg.Host != "" || tg.User != "u" {
		t.Errorf("empty quoted: %v %+v", err, tg)
	}
	if err := ParseSimple(`host="b`, &tg); err == nil {
		t.Errorf("unterminated quotation accepted")
	}
}
