package tds

import (
	"bytes"
	"context"
	"sync"
	"testing"
	"time"
)

type findingSetupWire struct {
	mu sync.Mutex
	bytes.Buffer
}

func (w *findingSetupWire) Write(p []byte) (int, error) {
	w.mu.Lock()
	defer w.mu.Unlock()
	return w.Buffer.Write(p)
}
func (*findingSetupWire) Close() error { return nil }

// WritePacket put header-only notifications on the package channel as HeaderOnlyPackage
// values, NewChannel asserted *HeaderOnlyPackage: the acknowledgement of a logical channel
// setup was never recognised and NewChannel failed for every logical channel.
func TestFinding_LogicalChannelSetupAcknowledged(t *testing.T) {
	conn := &Conn{conn: &findingSetupWire{}, info: &Info{ChannelPackageQueueSize: 4}, packetSize: 512, ctx: context.Background(),
		errCh: make(chan error, 1), tdsChannels: map[int]*Channel{}, tdsChannelsLock: &sync.RWMutex{}, tdsChannelCurFreeId: 1}
	go func() {
		// the server acknowledges the setup of logical channel 1
		for i := 0; i < 200; i++ {
			time.Sleep(5 * time.Millisecond)
			conn.tdsChannelsLock.RLock()
			ch, ok := conn.tdsChannels[1]
			conn.tdsChannelsLock.RUnlock()
			if ok {
				ack := NewPacket(PacketHeaderSize)
				ack.Data = nil
				ack.Header.MsgType = TDS_BUF_PROTACK
				ack.Header.Channel = 1
				ack.Header.Status = TDS_BUFSTAT_EOM
				ch.WritePacket(ack)
				return
			}
		}
	}()
	done := make(chan error, 1)
	go func() {
		_, err := conn.NewChannel()
		done <- err
	}()
	select {
	case err := <-done:
		if err != nil {
			t.Errorf("NewChannel failed although the server acknowledged the setup: %v", err)
		}
	case <-time.After(3 * time.Second):
		t.Errorf("NewChannel did not return")
	}
}
