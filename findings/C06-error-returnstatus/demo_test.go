package tds

import "testing"

func findingRoundTrip(t *testing.T, src Package) Package {
	tx := NewPacketQueue(func() int { return 4096 })
	if err := src.WriteTo(tx); err != nil {
		t.Fatal(err)
	}
	bs := tx.queue[0].Data[:tx.indexData]
	rx := NewPacketQueue(func() int { return 4096 })
	p := NewPacket(8 + len(bs))
	copy(p.Data, bs)
	p.Header.Status = TDS_BUFSTAT_EOM
	rx.AddPacket(p)
	tok, _ := rx.Byte()
	back, err := LookupPackage(Token(tok))
	if err != nil {
		t.Fatal(err)
	}
	if tl, ok := back.(*TokenlessPackage); ok {
		tl.Data.WriteByte(tok)
	}
	if err := back.ReadFrom(rx); err != nil {
		t.Errorf("%v -> % x: reading back as %T: %v", src, bs, back, err)
	}
	return back
}

// ErrorPackage.ReadFrom skipped the state and class bytes that WriteTo (and the TDS layout)
// put after the error number; ReturnStatusPackage.WriteTo wrote no token byte.
func TestFinding_ErrorAndReturnStatusRoundTrip(t *testing.T) {
	src := &ErrorPackage{ErrorNumber: 911, State: 2, Class: 16, ErrorMsg: "no such database", ServerName: "ASE", ProcName: "p", LineNr: 3}
	if back, ok := findingRoundTrip(t, src).(*ErrorPackage); !ok || *back != *src {
		t.Errorf("wrote %+v, read %+v", src, back)
	}
	rs := &ReturnStatusPackage{ReturnValue: 168496141}
	if back, ok := findingRoundTrip(t, rs).(*ReturnStatusPackage); !ok || *back != *rs {
		t.Errorf("wrote %+v, read %#v", rs, back)
	}
}
