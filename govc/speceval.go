package main

// Evaluation of contract expressions against a symbolic state.

import (
	"fmt"
	"go/constant"
	"go/types"
	"strings"

	"golang.org/x/tools/go/ssa"
)

type SpecEnv struct {
	ex    *Exec
	st    *State
	old   *State
	fr    *Frame
	vars  map[string]Val
	pkg   string // short package name for unqualified identifiers
	depth int
	qn    int
	locals func(name string) (Val, bool)
	headEnv *SpecEnv // environment at the loop head of the current iteration (inv-keep only)
	nowSt   *State   // the non-old state (for now() inside old())
	loopEntry *State // state when the current loop was entered (loop invariants only)
}

func (ex *Exec) newEnv(st, old *State, fr *Frame) *SpecEnv {
	return &SpecEnv{ex: ex, st: st, old: old, fr: fr, vars: map[string]Val{}, nowSt: st}
}

type specErr struct{ msg string }

func sfail(format string, a ...interface{}) { panic(specErr{fmt.Sprintf(format, a...)}) }

var nilVal = Val{T: nil, L: []Term{Int(0)}, P: &Loc{Fam: "nil"}}

func isNilSpec(v Val) bool { return v.T == nil && v.P != nil && v.P.Fam == "nil" }

func (env *SpecEnv) evalBool(e SExpr) Term {
	v := env.eval(e)
	if len(v.L) != 1 || v.L[0].Sort != SBool {
		sfail("expected boolean expression, got %v", v.L)
	}
	return v.L[0]
}

func (env *SpecEnv) evalInt(e SExpr) Term {
	v := env.eval(e)
	if len(v.L) != 1 || v.L[0].Sort != SInt {
		sfail("expected integer expression")
	}
	return v.L[0]
}

func spec1(t Term) Val { return Val{L: []Term{t}} }

func (env *SpecEnv) lookupPkgScope(name string) (types.Object, bool) {
	for _, p := range allPackages(env.ex.P.pkgs) {
		if shortPkg(p.PkgPath) == env.pkg {
			if o := p.Types.Scope().Lookup(name); o != nil {
				return o, true
			}
		}
	}
	return nil, false
}

func (env *SpecEnv) lookupQualified(pkg, name string) (types.Object, bool) {
	for _, p := range allPackages(env.ex.P.pkgs) {
		if shortPkg(p.PkgPath) == pkg || p.PkgPath == pkg || p.Name == pkg {
			if o := p.Types.Scope().Lookup(name); o != nil {
				return o, true
			}
		}
	}
	return nil, false
}

func (env *SpecEnv) objVal(o types.Object) Val {
	ex := env.ex
	switch x := o.(type) {
	case *types.Const:
		switch x.Val().Kind() {
		case constant.Int:
			return Val{T: x.Type(), L: []Term{IntS(x.Val().ExactString())}}
		case constant.Bool:
			if constant.BoolVal(x.Val()) {
				return spec1(True)
			}
			return spec1(False)
		case constant.String:
			return Val{T: x.Type(), L: []Term{ex.strConst(constant.StringVal(x.Val()))}}
		}
	case *types.Var:
		name := shortPkg(x.Pkg().Path()) + "." + x.Name()
		if ex.P.errGlobals[name] || types.Identical(x.Type(), types.Universe.Lookup("error").Type()) {
			return ex.sentinel(name)
		}
		loc := Loc{Fam: "G", Root: name, RootT: x.Type()}
		if env.fr != nil {
			if v, ok := env.fr.constGlobal(loc, x.Type(), env.st); ok {
				return v
			}
		}
		return ex.load(env.st, loc, x.Type())
	}
	sfail("cannot use %s in a contract", o)
	return Val{}
}

func (env *SpecEnv) eval(e SExpr) Val {
	ex := env.ex
	switch x := e.(type) {
	case *SLit:
		switch x.Kind {
		case "int":
			return spec1(IntS(x.Val))
		case "bool":
			if x.Val == "true" {
				return spec1(True)
			}
			return spec1(False)
		case "nil":
			return nilVal
		case "string":
			return Val{T: types.Typ[types.String], L: []Term{ex.strConst(x.Val)}}
		}
	case *SIdent:
		if v, ok := env.vars[x.Name]; ok {
			return v
		}
		if env.locals != nil {
			if v, ok := env.locals(x.Name); ok {
				return v
			}
		}
		if c, ok := ex.P.db.Consts[x.Name]; ok {
			return env.eval(c)
		}
		if o, ok := env.lookupPkgScope(x.Name); ok {
			return env.objVal(o)
		}
		sfail("unknown identifier %s", x.Name)
	case *SField:
		// qualified identifier pkg.Name
		if id, ok := x.X.(*SIdent); ok {
			if _, isVar := env.vars[id.Name]; !isVar {
				isLocal := false
				if env.locals != nil {
					_, isLocal = env.locals(id.Name)
				}
				if !isLocal {
					if o, ok := env.lookupQualified(id.Name, x.Name); ok {
						return env.objVal(o)
					}
				}
			}
		}
		base := env.eval(x.X)
		return env.field(base, x.Name)
	case *SIndex:
		base := env.eval(x.X)
		i := env.evalInt(x.I)
		return env.index(base, i)
	case *SUnary:
		v := env.eval(x.X)
		switch x.Op {
		case "!":
			return spec1(Not(v.one()))
		case "-":
			return spec1(Neg(v.one()))
		}
	case *SBinary:
		return env.binary(x)
	case *SCond:
		c := env.evalBool(x.C)
		a, b := env.eval(x.A), env.eval(x.B)
		if len(a.L) != len(b.L) {
			sfail("conditional branches differ in shape")
		}
		r := Val{T: a.T}
		for i := range a.L {
			r.L = append(r.L, Ite(c, a.L[i], b.L[i]))
		}
		return r
	case *SQuant:
		saved := map[string]*Val{}
		var names []string
		for _, v := range x.Vars {
			env.qn++
			ex.nameCount["$q"]++
			n := fmt.Sprintf("%s!q%d", v, ex.nameCount["$q"])
			names = append(names, n)
			if old, ok := env.vars[v]; ok {
				o := old
				saved[v] = &o
			} else {
				saved[v] = nil
			}
			env.vars[v] = spec1(Term{n, SInt})
		}
		ex.suppressFacts++
		body := env.evalBool(x.Body)
		ex.suppressFacts--
		for v, o := range saved {
			if o == nil {
				delete(env.vars, v)
			} else {
				env.vars[v] = *o
			}
		}
		if x.Forall {
			return spec1(Forall(names, body))
		}
		return spec1(Exists(names, body))
	case *SCall:
		return env.call(x)
	}
	sfail("cannot evaluate %T", e)
	return Val{}
}

func (env *SpecEnv) ghostHeap(gf *GhostField) *HeapInfo {
	return env.ex.heapInfo("GH", gf.Owner, gf.Name, Leaf{"", gf.Sort, nil, "ghost"}, "GH:"+gf.Owner+"."+gf.Name, 1)
}

// refOf returns the reference term identifying the object a value denotes
// (pointer target, interface payload).
func refOf(v Val) Term {
	if v.T == nil {
		return v.L[0]
	}
	switch under(v.T).(type) {
	case *types.Interface:
		return v.L[1]
	}
	return v.L[0]
}

func (env *SpecEnv) field(base Val, name string) Val {
	ex := env.ex
	if strings.HasPrefix(name, "$") {
		gf := ex.P.db.ghostByName(name)
		if gf == nil {
			sfail("unknown ghost field %s", name)
		}
		h := env.ghostHeap(gf)
		return Val{L: []Term{Select(env.st.get(h), refOf(base))}}
	}
	if base.T == nil {
		sfail("field %s of untyped spec value", name)
	}
	t := base.T
	if p, ok := under(t).(*types.Pointer); ok {
		stt, ok := under(p.Elem()).(*types.Struct)
		if !ok {
			sfail("field %s of non-struct pointer %s", name, t)
		}
		path, ft := findField(stt, name)
		if ft == nil {
			sfail("no field %s in %s", name, p.Elem())
		}
		loc := ex.ptrLoc(base)
		for _, f := range path {
			loc.Path += "." + f
		}
		if isStruct(ft) {
			// return a pointer-like value to the nested struct so further selection works
			return Val{T: types.NewPointer(ft), L: loc.Idx, P: &loc}
		}
		return ex.load(env.st, loc, ft)
	}
	if stt, ok := under(t).(*types.Struct); ok {
		for i := 0; i < stt.NumFields(); i++ {
			if stt.Field(i).Name() == name {
				lo, hi := fieldRange(t, i)
				return Val{T: stt.Field(i).Type(), L: base.L[lo:hi]}
			}
		}
		// promoted through embedded
		for i := 0; i < stt.NumFields(); i++ {
			f := stt.Field(i)
			if f.Embedded() && isStruct(f.Type()) {
				lo, hi := fieldRange(t, i)
				sub := Val{T: f.Type(), L: base.L[lo:hi]}
				if p, _ := findField(under(f.Type()).(*types.Struct), name); p != nil {
					return env.field(sub, name)
				}
			}
		}
		sfail("no field %s in %s", name, t)
	}
	if isIface(t) {
		sfail("field %s of interface value (use a type test first)", name)
	}
	sfail("field %s of %s", name, t)
	return Val{}
}

// findField resolves a (possibly promoted) field name to a path.
func findField(st *types.Struct, name string) ([]string, types.Type) {
	for i := 0; i < st.NumFields(); i++ {
		if st.Field(i).Name() == name {
			return []string{name}, st.Field(i).Type()
		}
	}
	for i := 0; i < st.NumFields(); i++ {
		f := st.Field(i)
		if f.Embedded() {
			if sub, ok := under(f.Type()).(*types.Struct); ok {
				if p, t := findField(sub, name); p != nil {
					return append([]string{f.Name()}, p...), t
				}
			}
		}
	}
	return nil, nil
}

func (env *SpecEnv) index(base Val, i Term) Val {
	ex := env.ex
	if base.T == nil {
		// ghost array
		if strings.HasPrefix(string(base.L[0].Sort), "(Array") {
			return spec1(Select(base.L[0], i))
		}
		sfail("index of non-array spec value")
	}
	switch t := under(base.T).(type) {
	case *types.Slice:
		et := t.Elem()
		var loc Loc
		if isStruct(et) {
			loc = Loc{Fam: "E", Root: typeName(et), Idx: []Term{base.L[0], Add(base.L[1], i)}, RootT: et}
			return Val{T: types.NewPointer(et), L: loc.Idx, P: &loc}
		}
		loc = Loc{Fam: "A", Root: typeName(et), Idx: []Term{base.L[0], Add(base.L[1], i)}}
		return ex.load(env.st, loc, et)
	case *types.Basic:
		if isString(base.T) {
			return spec1(sat(base.one(), i))
		}
	case *types.Map:
		mtn := typeName(base.T)
		var val Val
		val.T = t.Elem()
		for _, l := range shape(t.Elem()) {
			h := ex.heapInfo("M", mtn, "val"+l.Suffix, l, "M:"+mtn, 2)
			val.L = append(val.L, Select(Select(env.st.get(h), base.one()), i))
		}
		return val
	}
	sfail("cannot index %s", base.T)
	return Val{}
}

func firstLeafNil(v Val) Term {
	if v.T != nil && isIface(v.T) {
		return Eq(v.L[0], Int(0))
	}
	if len(v.L) == 0 {
		return False // address of a global
	}
	return Eq(v.L[0], Int(0))
}

func (env *SpecEnv) binary(x *SBinary) Val {
	switch x.Op {
	case "&&":
		return spec1(And(env.evalBool(x.X), env.evalBool(x.Y)))
	case "||":
		return spec1(Or(env.evalBool(x.X), env.evalBool(x.Y)))
	case "==>":
		return spec1(Implies(env.evalBool(x.X), env.evalBool(x.Y)))
	case "<==>":
		return spec1(Eq(env.evalBool(x.X), env.evalBool(x.Y)))
	}
	a, b := env.eval(x.X), env.eval(x.Y)
	switch x.Op {
	case "==", "!=":
		var eq Term
		switch {
		case isNilSpec(a) && isNilSpec(b):
			eq = True
		case isNilSpec(b):
			eq = firstLeafNil(a)
		case isNilSpec(a):
			eq = firstLeafNil(b)
		case len(a.L) == len(b.L):
			var cs []Term
			for i := range a.L {
				if a.L[i].Sort != b.L[i].Sort {
					sfail("comparison of different sorts")
				}
				cs = append(cs, Eq(a.L[i], b.L[i]))
			}
			eq = And(cs...)
		default:
			sfail("cannot compare values with %d and %d components", len(a.L), len(b.L))
		}
		if x.Op == "!=" {
			eq = Not(eq)
		}
		return spec1(eq)
	}
	av, bv := a.one(), b.one()
	switch x.Op {
	case "+":
		return spec1(Add(av, bv))
	case "-":
		return spec1(Sub(av, bv))
	case "*":
		return spec1(Mul(av, bv))
	case "/":
		return spec1(Div(av, bv)) // floor division on mathematical ints; use with non-negative operands
	case "%":
		return spec1(Mod(av, bv))
	case "<":
		return spec1(Lt(av, bv))
	case "<=":
		return spec1(Le(av, bv))
	case ">":
		return spec1(Gt(av, bv))
	case ">=":
		return spec1(Ge(av, bv))
	}
	sfail("operator %s not supported in contracts", x.Op)
	return Val{}
}

func (env *SpecEnv) call(x *SCall) Val {
	ex := env.ex
	if x.Recv == nil {
		switch x.Fun {
		case "old":
			sub := *env
			if sub.nowSt == nil {
				sub.nowSt = env.st
			}
			sub.st = env.old
			return sub.eval(x.Args[0])
		case "loopentry":
			// value when the loop was entered (before its first iteration)
			if env.loopEntry == nil {
				return env.eval(x.Args[0])
			}
			sub := *env
			sub.st = env.loopEntry
			return sub.eval(x.Args[0])
		case "maphas":
			// maphas(m, k): k is a key of map m
			m := env.eval(x.Args[0])
			k := env.eval(x.Args[1])
			if m.T == nil {
				sfail("maphas of spec value")
			}
			mtn := typeName(m.T)
			has := Select(Select(env.st.get(ex.mapHeap(mtn, "has", SBool)), m.one()), refOf(k))
			return spec1(And(Ne(m.one(), Int(0)), has))
		case "mapval":
			// mapval(m, k): the value stored under key k (meaningful when maphas(m, k)); single-leaf element types only
			m := env.eval(x.Args[0])
			k := env.eval(x.Args[1])
			if m.T == nil {
				sfail("mapval of spec value")
			}
			mt, ok := under(m.T).(*types.Map)
			if !ok {
				sfail("mapval of non-map")
			}
			ls := shape(mt.Elem())
			if len(ls) != 1 {
				sfail("mapval: element type with %d leaves", len(ls))
			}
			mtn := typeName(m.T)
			hv := ex.heapInfo("M", mtn, "val"+ls[0].Suffix, ls[0], "M:"+mtn, 2)
			return Val{T: mt.Elem(), L: []Term{Select(Select(env.st.get(hv), m.one()), refOf(k))}}
		case "mapbool":
			// mapbool(m, k): value of a map[K]bool at k (false when absent)
			m := env.eval(x.Args[0])
			k := env.eval(x.Args[1])
			if m.T == nil {
				sfail("mapbool of spec value")
			}
			mtn := typeName(m.T)
			has := Select(Select(env.st.get(ex.mapHeap(mtn, "has", SBool)), m.one()), refOf(k))
			lf := Leaf{"", SBool, nil, "bool"}
			hv := ex.heapInfo("M", mtn, "val", lf, "M:"+mtn, 2)
			val := Select(Select(env.st.get(hv), m.one()), refOf(k))
			return spec1(And(Ne(m.one(), Int(0)), has, val))
		case "now":
			sub := *env
			if env.nowSt != nil {
				sub.st = env.nowSt
			}
			return sub.eval(x.Args[0])
		case "head":
			// value at the head of the current loop iteration (only meaningful in inv-keep)
			if env.headEnv == nil {
				return env.eval(x.Args[0])
			}
			h := *env.headEnv
			// bound variables of enclosing quantifiers stay visible
			h.vars = map[string]Val{}
			for k, v := range env.headEnv.vars {
				h.vars[k] = v
			}
			for k, v := range env.vars {
				if v.T == nil && len(v.L) == 1 && strings.Contains(v.L[0].S, "!q") {
					h.vars[k] = v
				}
			}
			return h.eval(x.Args[0])
		case "len":
			v := env.eval(x.Args[0])
			if v.T == nil {
				sfail("len of spec value")
			}
			switch under(v.T).(type) {
			case *types.Slice:
				return spec1(v.L[2])
			case *types.Basic:
				return spec1(slen(v.one()))
			case *types.Map:
				return spec1(Select(env.st.get(ex.mapCount(typeName(v.T))), v.one()))
			}
			sfail("len of %s", v.T)
		case "cap":
			v := env.eval(x.Args[0])
			return spec1(v.L[3])
		case "arr":
			v := env.eval(x.Args[0])
			return spec1(v.L[0])
		case "off":
			v := env.eval(x.Args[0])
			return spec1(v.L[1])
		case "ref":
			return spec1(refOf(env.eval(x.Args[0])))
		case "neb":
			v := env.eval(x.Args[0])
			s := ex.sentinel("tds.ErrNotEnoughBytes")
			return spec1(errIs(v.L[1], s.L[1]))
		case "errIs":
			v := env.eval(x.Args[0])
			s := env.eval(x.Args[1])
			return spec1(errIs(v.L[1], s.L[1]))
		case "is", "typeis":
			v := env.eval(x.Args[0])
			t := env.parseType(x.Raw[1])
			return spec1(Eq(v.L[0], Int(int64(ex.P.tagOf(t)))))
		case "as":
			v := env.eval(x.Args[0])
			t := env.parseType(x.Raw[1])
			return env.fr.unbox(v.L[1], t, env.st)
		case "tag":
			v := env.eval(x.Args[0])
			return spec1(v.L[0])
		case "isle":
			// isle(endian): the binary.ByteOrder value is binary.LittleEndian
			v := env.eval(x.Args[0])
			return spec1(Eq(v.L[0], Int(int64(ex.byteOrderTag("littleEndian")))))
		case "fnis":
			// fnis(f, <function key>): the function value f is the named top-level function or
			// capture-free function literal (e.g. (*Channel).NextPackageUntil$1)
			v := env.eval(x.Args[0])
			key := strings.TrimSpace(x.Raw[1])
			fn, ok := ex.P.funcs[key]
			if !ok {
				key = canonFuncKey(key, env.pkg, "func")
				fn, ok = ex.P.funcs[key]
			}
			if !ok {
				sfail("fnis: unknown function %s", key)
			}
			return spec1(Eq(v.L[0], ex.fnConst(fn)))
		case "typetag":
			// typetag(*T): the dynamic type tag interface values holding a *T carry
			t := env.parseType(x.Raw[0])
			return spec1(Int(int64(ex.P.tagOf(t))))
		case "deref":
			v := env.eval(x.Args[0])
			if v.T == nil || !isPointer(v.T) {
				sfail("deref of non-pointer")
			}
			el := under(v.T).(*types.Pointer).Elem()
			if isStruct(el) {
				return v // pointers to structs are dereferenced implicitly by field selection
			}
			return ex.load(env.st, ex.ptrLoc(v), el)
		case "nonnil":
			v := env.eval(x.Args[0])
			if v.T != nil && isIface(v.T) {
				return spec1(And(Ne(v.L[0], Int(0)), Ne(v.L[1], Int(0))))
			}
			return spec1(Not(firstLeafNil(v)))
		case "payload":
			v := env.eval(x.Args[0])
			return spec1(v.L[1])
		case "fresh":
			v := env.eval(x.Args[0])
			return spec1(And(Gt(refOf(v), env.old.alloc), Le(refOf(v), env.st.alloc)))
		case "allocated":
			v := env.eval(x.Args[0])
			return spec1(Le(refOf(v), env.st.alloc))
		case "int", "int64", "uint16", "uint8", "uint32", "uint64", "int32", "int16", "int8", "uint", "byte":
			return spec1(env.evalInt(x.Args[0]))
		case "slen":
			return spec1(slen(env.eval(x.Args[0]).one()))
		case "sat":
			return spec1(sat(env.eval(x.Args[0]).one(), env.evalInt(x.Args[1])))
		case "ite":
			return env.eval(&SCond{x.Args[0], x.Args[1], x.Args[2]})
		case "select":
			return spec1(Select(env.eval(x.Args[0]).L[0], env.evalInt(x.Args[1])))
		case "store":
			return spec1(Store(env.eval(x.Args[0]).L[0], env.evalInt(x.Args[1]), env.eval(x.Args[2]).one()))
		case "seqwrite":
			// seqwrite(arr, pos, slice): arr with slice's elements written at pos..pos+len
			a := env.eval(x.Args[0]).L[0]
			pos := env.evalInt(x.Args[1])
			sl := env.eval(x.Args[2])
			if sl.T == nil || !isSlice(sl.T) {
				sfail("seqwrite: third argument must be a slice")
			}
			et := under(sl.T).(*types.Slice).Elem()
			h := ex.leafHeaps("A", typeName(et), "", et, "")[0]
			row := Select(env.st.get(h), sl.L[0])
			na := ex.vc.fresh("seqw", a.Sort)
			k := Term{"sw", SInt}
			ex.vc.assert(Forall([]string{"sw"}, Implies(And(Le(pos, k), Lt(k, Add(pos, sl.L[2]))), Eq(Select(na, k), Select(row, Add(sl.L[1], Sub(k, pos))))), Select(na, k)))
			ex.vc.assert(Forall([]string{"sw"}, Implies(Or(Lt(k, pos), Ge(k, Add(pos, sl.L[2]))), Eq(Select(na, k), Select(a, k))), Select(na, k)))
			return spec1(na)
		case "shift":
			// shift(arr, d): arr'[j] == arr[j+d]
			a := env.eval(x.Args[0]).L[0]
			d := env.evalInt(x.Args[1])
			na := ex.vc.fresh("shift", a.Sort)
			k := Term{"sh", SInt}
			ex.vc.assert(Forall([]string{"sh"}, Eq(Select(na, k), Select(a, Add(k, d))), Select(na, k)))
			return spec1(na)
		case "pow2":
			if l, ok := x.Args[0].(*SLit); ok {
				var k int
				fmt.Sscanf(l.Val, "%d", &k)
				return spec1(pow2(k))
			}
		case "held":
			// held(mutexExpr) -> lock mode != none (static approximation)
			return spec1(True)
		case "closed":
			// closed(ch): the channel has been closed
			cv := env.eval(x.Args[0])
			h := ex.chanHeap("closed", SBool)
			return spec1(Select(env.st.get(h), cv.L[0]))
		}
		// user predicate
		if pd, ok := ex.P.db.Preds[x.Fun]; ok {
			return env.callPred(pd, nil, x.Args)
		}
		if pd, ok := ex.P.db.Preds[env.pkg+"."+x.Fun]; ok {
			return env.callPred(pd, nil, x.Args)
		}
		// uninterpreted spec function declared on the fly: uf_name(args) -> Int
		if strings.HasPrefix(x.Fun, "uf_") || strings.HasPrefix(x.Fun, "ufb_") {
			var as []Term
			var ss []Sort
			for _, a := range x.Args {
				t := env.eval(a).one()
				as = append(as, t)
				ss = append(ss, t.Sort)
			}
			rs := SInt
			if strings.HasPrefix(x.Fun, "ufb_") {
				rs = SBool
			}
			ex.vc.declareFun(x.Fun, ss, rs)
			return spec1(app(rs, x.Fun, as...))
		}
		sfail("unknown spec function %s", x.Fun)
	}
	// method-style predicate: recv.name(args)
	recv := env.eval(x.Recv)
	if recv.T != nil {
		tn := typeName(recv.T)
		tn = strings.TrimPrefix(tn, "*")
		if pd, ok := ex.P.db.Preds[tn+"."+x.Fun]; ok {
			return env.callPred(pd, &recv, x.Args)
		}
	}
	sfail("unknown predicate %s", x.Fun)
	return Val{}
}

func (env *SpecEnv) callPred(pd *PredDef, recv *Val, args []SExpr) Val {
	if env.depth > 8 {
		sfail("predicate nesting too deep (recursion?) in %s", pd.Name)
	}
	if len(args) != len(pd.Params) {
		sfail("predicate %s expects %d arguments", pd.Name, len(pd.Params))
	}
	sub := &SpecEnv{ex: env.ex, st: env.st, old: env.old, fr: env.fr, vars: map[string]Val{}, pkg: env.pkg, depth: env.depth + 1, nowSt: env.nowSt, headEnv: env.headEnv, locals: nil, loopEntry: env.loopEntry}
	if pd.Pkg != "" {
		sub.pkg = pd.Pkg
	}
	for i, a := range args {
		sub.vars[pd.Params[i]] = env.eval(a)
	}
	if recv != nil {
		sub.vars[pd.Recv] = *recv
	}
	return sub.eval(pd.Body)
}

// parseType resolves "*DonePackage", "tds.DonePackage", "HeaderOnlyPackage".
func (env *SpecEnv) parseType(s string) types.Type {
	s = strings.TrimSpace(s)
	ptr := false
	if strings.HasPrefix(s, "*") {
		ptr = true
		s = s[1:]
	}
	var o types.Object
	var ok bool
	if i := strings.LastIndex(s, "."); i >= 0 {
		o, ok = env.lookupQualified(s[:i], s[i+1:])
	} else {
		o, ok = env.lookupPkgScope(s)
		if !ok {
			if b := types.Universe.Lookup(s); b != nil {
				o, ok = b, true
			}
		}
	}
	if !ok {
		sfail("unknown type %s", s)
	}
	tn, isT := o.(*types.TypeName)
	if !isT {
		sfail("%s is not a type", s)
	}
	t := tn.Type()
	if ptr {
		return types.NewPointer(t)
	}
	return t
}

// ---------------------------------------------------------------------------
// locations (modifies clauses, ghost assignment)

type targetLoc struct {
	heaps []*HeapInfo
	idx   []Term
	// rng: for elems(s) the element range [off, off+len) of the row that may change
	rng []Term
}

func (env *SpecEnv) evalLocs(e SExpr) []targetLoc {
	ex := env.ex
	switch x := e.(type) {
	case *SField:
		base := env.eval(x.X)
		if strings.HasPrefix(x.Name, "$") {
			gf := ex.P.db.ghostByName(x.Name)
			if gf == nil {
				sfail("unknown ghost field %s", x.Name)
			}
			return []targetLoc{{[]*HeapInfo{env.ghostHeap(gf)}, []Term{refOf(base)}, nil}}
		}
		p, ok := under(base.T).(*types.Pointer)
		if !ok {
			sfail("modifies: %s is not a pointer", x.Name)
		}
		stt := under(p.Elem()).(*types.Struct)
		path, ft := findField(stt, x.Name)
		if ft == nil {
			sfail("modifies: no field %s", x.Name)
		}
		loc := ex.ptrLoc(base)
		for _, f := range path {
			loc.Path += "." + f
		}
		hs := ex.leafHeaps(loc.Fam, loc.Root, loc.Path, ft, ex.pathKey(loc, loc.RootT))
		return []targetLoc{{hs, loc.Idx, nil}}
	case *SIndex:
		base := env.eval(x.X)
		i := env.evalInt(x.I)
		sl, ok := under(base.T).(*types.Slice)
		if !ok {
			sfail("modifies: index of non-slice")
		}
		fam := "A"
		if isStruct(sl.Elem()) {
			fam = "E"
		}
		return []targetLoc{{ex.leafHeaps(fam, typeName(sl.Elem()), "", sl.Elem(), ""), []Term{base.L[0], Add(base.L[1], i)}, nil}}
	case *SCall:
		switch x.Fun {
		case "elems":
			base := env.eval(x.Args[0])
			sl, ok := under(base.T).(*types.Slice)
			if !ok {
				sfail("elems of non-slice")
			}
			fam := "A"
			if isStruct(sl.Elem()) {
				fam = "E"
			}
			return []targetLoc{{ex.leafHeaps(fam, typeName(sl.Elem()), "", sl.Elem(), ""), []Term{base.L[0]}, []Term{base.L[1], base.L[2]}}}
		case "obj":
			base := env.eval(x.Args[0])
			p, ok := under(base.T).(*types.Pointer)
			if !ok {
				sfail("obj of non-pointer")
			}
			loc := ex.ptrLoc(base)
			return []targetLoc{{ex.leafHeaps(loc.Fam, loc.Root, loc.Path, p.Elem(), ""), loc.Idx, nil}}
		}
	}
	sfail("unsupported modifies target")
	return nil
}

func (env *SpecEnv) assignGhost(lhs, rhs SExpr) {
	ex := env.ex
	switch x := lhs.(type) {
	case *SField:
		gf := ex.P.db.ghostByName(x.Name)
		if gf == nil {
			sfail("ghost assignment to non-ghost %s", x.Name)
		}
		base := env.eval(x.X)
		v := env.eval(rhs).one()
		h := env.ghostHeap(gf)
		// assignments through nil are no-ops (there is no object)
		env.st.set(h, ex.vc.define(h.Name, Ite(Eq(refOf(base), Int(0)), env.st.get(h), Store(env.st.get(h), refOf(base), v))))
		return
	case *SIndex:
		if f, ok := x.X.(*SField); ok {
			gf := ex.P.db.ghostByName(f.Name)
			if gf != nil {
				base := env.eval(f.X)
				i := env.evalInt(x.I)
				v := env.eval(rhs).one()
				h := env.ghostHeap(gf)
				old := env.st.get(h)
				env.st.set(h, ex.vc.define(h.Name, Store(old, refOf(base), Store(Select(old, refOf(base)), i, v))))
				return
			}
		}
	}
	sfail("unsupported ghost assignment target")
}

// bindTopVars binds parameter (and free variable) names of the frame's function.
func (fr *Frame) bindTopVars(env *SpecEnv) {
	for i, p := range fr.fn.Params {
		env.vars[p.Name()] = fr.vals[p]
		_ = i
	}
	for _, fv := range fr.fn.FreeVars {
		env.vars[fv.Name()] = fr.vals[fv]
	}
}

// localByName finds the value of a source-level local variable as seen at
// block b (used for loop invariants): header phis first, then the closest
// dominating DebugRef.
func (fr *Frame) localByName(name string, b *ssa.BasicBlock, st *State, phiOverride map[*ssa.Phi]Val) (Val, bool) {
	for _, in := range b.Instrs {
		phi, ok := in.(*ssa.Phi)
		if !ok {
			break
		}
		if phi.Comment == name {
			if v, ok := phiOverride[phi]; ok {
				return v, true
			}
			return fr.vals[phi], true
		}
	}
	// closest dominating definition
	var best ssa.Value
	var bestAddr bool
	bestDepth := -1
	for _, blk := range fr.fn.Blocks {
		if !(blk.Dominates(b)) || (blk == b && !fr.includeOwnBlock) {
			continue
		}
		depth := 0
		for d := blk; d != nil; d = d.Idom() {
			depth++
		}
		for _, in := range blk.Instrs {
			dr, ok := in.(*ssa.DebugRef)
			if !ok {
				continue
			}
			obj := dr.Object()
			if obj == nil || obj.Name() != name {
				continue
			}
			if _, isVar := obj.(*types.Var); !isVar {
				continue
			}
			if depth >= bestDepth {
				best, bestAddr, bestDepth = dr.X, dr.IsAddr, depth
			}
		}
	}
	if best == nil {
		return Val{}, false
	}
	if _, isPhi := best.(*ssa.Phi); isPhi {
		if v, ok := phiOverride[best.(*ssa.Phi)]; ok {
			return v, true
		}
	}
	v, ok := fr.vals[best]
	if !ok {
		if c, isC := best.(*ssa.Const); isC {
			v = fr.ex.constVal(c, st)
		} else {
			return Val{}, false
		}
	}
	if bestAddr {
		loc := fr.ex.ptrLoc(v)
		return fr.ex.load(st, loc, best.Type().(*types.Pointer).Elem()), true
	}
	return v, true
}
