package main

// SMT term construction (plain SMT-LIB text) and the solver portfolio.

import (
	"bytes"
	"context"
	"fmt"
	"os"
	"os/exec"
	"path/filepath"
	"sort"
	"strings"
	"sync"
	"time"
)

type Sort string

const (
	SInt  Sort = "Int"
	SBool Sort = "Bool"
	SArr  Sort = "(Array Int Int)"         // Int -> Int
	SArrB Sort = "(Array Int Bool)"        // Int -> Bool
	SArr2 Sort = "(Array Int (Array Int Int))"  // ref -> idx -> Int
	SArr2B Sort = "(Array Int (Array Int Bool))" // ref -> idx -> Bool
)

func arrOf(elem Sort) Sort { return Sort("(Array Int " + string(elem) + ")") }

// elemSort returns the element sort of an array sort.
func elemSort(s Sort) Sort {
	str := string(s)
	if !strings.HasPrefix(str, "(Array Int ") {
		panic("elemSort of non-array " + str)
	}
	return Sort(str[len("(Array Int ") : len(str)-1])
}

type Term struct {
	S    string
	Sort Sort
}

func (t Term) String() string { return t.S }

var (
	True  = Term{"true", SBool}
	False = Term{"false", SBool}
)

func Int(i int64) Term {
	if i < 0 {
		return Term{fmt.Sprintf("(- %d)", -i), SInt}
	}
	return Term{fmt.Sprintf("%d", i), SInt}
}

func IntS(s string) Term { // decimal string, may be negative
	if strings.HasPrefix(s, "-") {
		return Term{"(- " + s[1:] + ")", SInt}
	}
	return Term{s, SInt}
}

func app(sort Sort, op string, args ...Term) Term {
	var b strings.Builder
	b.WriteByte('(')
	b.WriteString(op)
	for _, a := range args {
		b.WriteByte(' ')
		b.WriteString(a.S)
	}
	b.WriteByte(')')
	return Term{b.String(), sort}
}

func And(ts ...Term) Term {
	var xs []Term
	for _, t := range ts {
		if t.S == "true" {
			continue
		}
		if t.S == "false" {
			return False
		}
		xs = append(xs, t)
	}
	switch len(xs) {
	case 0:
		return True
	case 1:
		return xs[0]
	}
	return app(SBool, "and", xs...)
}

func Or(ts ...Term) Term {
	var xs []Term
	for _, t := range ts {
		if t.S == "false" {
			continue
		}
		if t.S == "true" {
			return True
		}
		xs = append(xs, t)
	}
	switch len(xs) {
	case 0:
		return False
	case 1:
		return xs[0]
	}
	return app(SBool, "or", xs...)
}

func Not(t Term) Term {
	switch t.S {
	case "true":
		return False
	case "false":
		return True
	}
	if strings.HasPrefix(t.S, "(not ") {
		return Term{t.S[5 : len(t.S)-1], SBool}
	}
	return app(SBool, "not", t)
}

func Implies(a, b Term) Term {
	if a.S == "true" {
		return b
	}
	if a.S == "false" || b.S == "true" {
		return True
	}
	return app(SBool, "=>", a, b)
}

func Eq(a, b Term) Term {
	if a.S == b.S {
		return True
	}
	return app(SBool, "=", a, b)
}
func Ne(a, b Term) Term { return Not(Eq(a, b)) }
func Ite(c, a, b Term) Term {
	if c.S == "true" {
		return a
	}
	if c.S == "false" {
		return b
	}
	if a.S == b.S {
		return a
	}
	return app(a.Sort, "ite", c, a, b)
}
func Add(a, b Term) Term {
	if a.S == "0" {
		return b
	}
	if b.S == "0" {
		return a
	}
	return app(SInt, "+", a, b)
}
func Sub(a, b Term) Term {
	if b.S == "0" {
		return a
	}
	return app(SInt, "-", a, b)
}
func Mul(a, b Term) Term { return app(SInt, "*", a, b) }
func Lt(a, b Term) Term  { return app(SBool, "<", a, b) }
func Le(a, b Term) Term  { return app(SBool, "<=", a, b) }
func Gt(a, b Term) Term  { return app(SBool, ">", a, b) }
func Ge(a, b Term) Term  { return app(SBool, ">=", a, b) }
func Div(a, b Term) Term { return app(SInt, "div", a, b) }
func Mod(a, b Term) Term { return app(SInt, "mod", a, b) }
func Neg(a Term) Term    { return app(SInt, "-", a) }

// Store-to-load forwarding: terms are plain text, so the structure of store
// terms and of named definitions is kept in side tables (reset per VC; VCs are
// built one at a time).
type storeRec struct{ a, i, v Term }

var (
	storeTab = map[string]storeRec{}
	defTab   = map[string]Term{}
)

func resetTermTables() {
	storeTab = map[string]storeRec{}
	defTab = map[string]Term{}
}

func resolveDef(t Term) Term {
	for k := 0; k < 8; k++ {
		d, ok := defTab[t.S]
		if !ok {
			return t
		}
		t = d
	}
	return t
}

func Select(a, i Term) Term {
	r := resolveDef(a)
	for k := 0; k < 6; k++ {
		sr, ok := storeTab[r.S]
		if !ok {
			break
		}
		if sr.i.S == i.S {
			return sr.v
		}
		// distinct integer literals: look through the store
		if _, ok1 := smtIntValue(sr.i.S); ok1 {
			if _, ok2 := smtIntValue(i.S); ok2 {
				r = resolveDef(sr.a)
				continue
			}
		}
		break
	}
	return app(elemSort(a.Sort), "select", a, i)
}

func Store(a, i, v Term) Term {
	t := app(a.Sort, "store", a, i, v)
	storeTab[t.S] = storeRec{a, i, v}
	return t
}

func Forall(vars []string, body Term, pats ...Term) Term {
	var b strings.Builder
	b.WriteString("(forall (")
	for _, v := range vars {
		fmt.Fprintf(&b, "(%s Int)", v)
	}
	b.WriteString(") ")
	if len(pats) > 0 {
		b.WriteString("(! ")
		b.WriteString(body.S)
		b.WriteString(" :pattern (")
		for i, p := range pats {
			if i > 0 {
				b.WriteByte(' ')
			}
			b.WriteString(p.S)
		}
		b.WriteString("))")
	} else {
		b.WriteString(body.S)
	}
	b.WriteString(")")
	return Term{b.String(), SBool}
}

func Exists(vars []string, body Term) Term {
	var b strings.Builder
	b.WriteString("(exists (")
	for _, v := range vars {
		fmt.Fprintf(&b, "(%s Int)", v)
	}
	b.WriteString(") ")
	b.WriteString(body.S)
	b.WriteString(")")
	return Term{b.String(), SBool}
}

// pow2 returns 2^k as a decimal term.
func pow2(k int) Term {
	// big enough for 64
	v := new(bigInt).lsh1(k)
	return Term{v.String(), SInt}
}

// tiny big-int just for powers of two (avoid importing math/big everywhere).
type bigInt struct{ digits []int } // little endian base 10

func (b *bigInt) lsh1(k int) *bigInt {
	b.digits = []int{1}
	for i := 0; i < k; i++ {
		carry := 0
		for j := range b.digits {
			d := b.digits[j]*2 + carry
			b.digits[j] = d % 10
			carry = d / 10
		}
		if carry > 0 {
			b.digits = append(b.digits, carry)
		}
	}
	return b
}
func (b *bigInt) String() string {
	var sb strings.Builder
	for i := len(b.digits) - 1; i >= 0; i-- {
		sb.WriteByte(byte('0' + b.digits[i]))
	}
	return sb.String()
}

func mangle(s string) string {
	var b strings.Builder
	for _, r := range s {
		switch {
		case r >= 'a' && r <= 'z', r >= 'A' && r <= 'Z', r >= '0' && r <= '9', r == '_', r == '$', r == '.', r == '!':
			b.WriteRune(r)
		case r == '*':
			b.WriteString("@p")
		case r == '[':
			b.WriteString("@l")
		case r == ']':
			b.WriteString("@r")
		case r == '/':
			b.WriteString("@s")
		case r == ' ':
			b.WriteString("_")
		case r == '(':
			b.WriteString("@L")
		case r == ')':
			b.WriteString("@R")
		case r == ',':
			b.WriteString("@c")
		case r == '{':
			b.WriteString("@b")
		case r == '}':
			b.WriteString("@e")
		case r == ';':
			b.WriteString("@m")
		default:
			fmt.Fprintf(&b, "@u%x", r)
		}
	}
	return b.String()
}

// ---------------------------------------------------------------------------
// VC: a growing list of declarations and assertions for one function.

type VC struct {
	decls    []string
	declared map[string]Sort
	asserts  []string
	counter  map[string]int
	bases    [][]string // per assertion: heap base names it mentions (computed lazily)
	mu       sync.Mutex
}

func newVC() *VC {
	return &VC{declared: map[string]Sort{}, counter: map[string]int{}}
}

func (vc *VC) declare(name string, sort Sort) Term {
	if s, ok := vc.declared[name]; ok {
		if s != sort {
			panic(fmt.Sprintf("redeclare %s: %s vs %s", name, s, sort))
		}
		return Term{name, sort}
	}
	vc.declared[name] = sort
	vc.decls = append(vc.decls, fmt.Sprintf("(declare-fun %s () %s)", name, sort))
	return Term{name, sort}
}

func (vc *VC) declareFun(name string, args []Sort, ret Sort) {
	if _, ok := vc.declared[name]; ok {
		return
	}
	vc.declared[name] = ret
	var as []string
	for _, a := range args {
		as = append(as, string(a))
	}
	vc.decls = append(vc.decls, fmt.Sprintf("(declare-fun %s (%s) %s)", name, strings.Join(as, " "), ret))
}

// fresh declares a fresh constant with the given base name.
func (vc *VC) fresh(base string, sort Sort) Term {
	base = mangle(base)
	vc.counter[base]++
	name := fmt.Sprintf("%s!%d", base, vc.counter[base])
	return vc.declare(name, sort)
}

func (vc *VC) assert(t Term) {
	if t.S == "true" {
		return
	}
	vc.asserts = append(vc.asserts, t.S)
}

// define introduces a named constant equal to t (keeps formulas linear).
func (vc *VC) define(base string, t Term) Term {
	if len(t.S) < 24 && !strings.Contains(t.S, " ") {
		return t
	}
	c := vc.fresh(base, t.Sort)
	vc.assert(Eq(c, t))
	defTab[c.S] = t
	return c
}

func (vc *VC) mark() int { return len(vc.asserts) }

// query renders the script for an obligation: all assertions up to mark, plus
// extra hypotheses, plus the negated goal.
func (vc *VC) query(mark int, hyps []Term, goal Term, wantModel bool) string {
	var b bytes.Buffer
	if wantModel {
		b.WriteString("(set-option :produce-models true)\n")
	}
	b.WriteString("(set-logic ALL)\n")
	for _, d := range vc.decls {
		b.WriteString(d)
		b.WriteByte('\n')
	}
	for _, a := range vc.asserts[:mark] {
		b.WriteString("(assert ")
		b.WriteString(a)
		b.WriteString(")\n")
	}
	for _, h := range hyps {
		if h.S == "true" {
			continue
		}
		b.WriteString("(assert ")
		b.WriteString(h.S)
		b.WriteString(")\n")
	}
	b.WriteString("(assert (not ")
	b.WriteString(goal.S)
	b.WriteString("))\n(check-sat)\n")
	return b.String()
}

// ---------------------------------------------------------------------------
// Solver portfolio

type SolveResult struct {
	Status string // unsat | sat | unknown | timeout | error
	Solver string
	Time   float64
	Raw    string
	Model  string
}

type solverSpec struct {
	name string
	args func(file string, timeoutS int) []string
}

var solvers = []solverSpec{
	{"z3-new", func(f string, t int) []string { return []string{"z3-new", fmt.Sprintf("-T:%d", t), f} }},
	{"cvc5", func(f string, t int) []string {
		return []string{"cvc5", fmt.Sprintf("--tlimit=%d", t*1000), "--produce-models", f}
	}},
	{"z3", func(f string, t int) []string { return []string{"z3", fmt.Sprintf("-T:%d", t), f} }},
}

var solverSem = make(chan struct{}, 16)

func runOne(ctx context.Context, sp solverSpec, file string, timeoutS int) SolveResult {
	args := sp.args(file, timeoutS)
	cctx, cancel := context.WithTimeout(ctx, time.Duration(timeoutS+2)*time.Second)
	defer cancel()
	start := time.Now()
	cmd := exec.CommandContext(cctx, args[0], args[1:]...)
	var out bytes.Buffer
	cmd.Stdout = &out
	cmd.Stderr = &out
	_ = cmd.Run()
	el := time.Since(start).Seconds()
	raw := out.String()
	first := strings.TrimSpace(strings.SplitN(raw, "\n", 2)[0])
	st := "error"
	switch {
	case first == "unsat":
		st = "unsat"
	case first == "sat":
		st = "sat"
	case first == "unknown":
		st = "unknown"
	case strings.Contains(first, "timeout") || cctx.Err() != nil:
		st = "timeout"
	}
	if len(raw) > 4000 {
		raw = raw[:4000]
	}
	return SolveResult{Status: st, Solver: sp.name, Time: el, Raw: raw}
}

// solve races the solvers on the script; first definite answer (unsat/sat)
// wins. which selects the subset of solvers ("" = all).
func solve(script string, dir, name string, timeoutS int, only string) SolveResult {
	solverSem <- struct{}{}
	defer func() { <-solverSem }()
	file := filepath.Join(dir, mangle(name)+".smt2")
	if len(file) > 200 {
		file = file[:180] + fmt.Sprintf("_%x.smt2", hashStr(name))
	}
	if err := os.WriteFile(file, []byte(script), 0o644); err != nil {
		return SolveResult{Status: "error", Raw: err.Error()}
	}
	ctx, cancel := context.WithCancel(context.Background())
	defer cancel()
	ch := make(chan SolveResult, len(solvers))
	n := 0
	var wg sync.WaitGroup
	for _, sp := range solvers {
		if only != "" && !strings.Contains(","+only+",", ","+sp.name+",") {
			continue
		}
		n++
		wg.Add(1)
		go func(sp solverSpec) {
			defer wg.Done()
			ch <- runOne(ctx, sp, file, timeoutS)
		}(sp)
	}
	var best SolveResult
	best.Status = "unknown"
	var notes []string
	for i := 0; i < n; i++ {
		r := <-ch
		notes = append(notes, fmt.Sprintf("%s:%s:%.2fs", r.Solver, r.Status, r.Time))
		if r.Status == "unsat" || r.Status == "sat" {
			best = r
			cancel()
			break
		}
		if best.Solver == "" || r.Status == "timeout" {
			best = r
		}
	}
	sort.Strings(notes)
	best.Raw = strings.Join(notes, " ") + "\n" + best.Raw
	go func() { wg.Wait() }()
	return best
}

func hashStr(s string) uint32 {
	var h uint32 = 2166136261
	for i := 0; i < len(s); i++ {
		h ^= uint32(s[i])
		h *= 16777619
	}
	return h
}

// getModel re-runs z3-new with (get-value ...) for the given terms.
func getModel(script string, dir, name string, terms []string, timeoutS int) (map[string]string, string) {
	if len(terms) == 0 {
		return nil, ""
	}
	s := script + "(get-value (" + strings.Join(terms, " ") + "))\n"
	file := filepath.Join(dir, mangle(name)+".model.smt2")
	if len(file) > 200 {
		file = file[:180] + fmt.Sprintf("_%x.model.smt2", hashStr(name))
	}
	os.WriteFile(file, []byte(s), 0o644)
	for _, sv := range []string{"z3-new", "z3"} {
		ctx, cancel := context.WithTimeout(context.Background(), time.Duration(timeoutS+2)*time.Second)
		cmd := exec.CommandContext(ctx, sv, fmt.Sprintf("-T:%d", timeoutS), file)
		var out bytes.Buffer
		cmd.Stdout = &out
		cmd.Run()
		cancel()
		raw := out.String()
		if !strings.HasPrefix(raw, "sat") {
			continue
		}
		body := strings.TrimSpace(raw[3:])
		m := parseGetValue(body)
		return m, raw
	}
	return nil, ""
}

// parseGetValue parses "((t v) (t v) ...)" into a map keyed by term text.
func parseGetValue(s string) map[string]string {
	m := map[string]string{}
	s = strings.TrimSpace(s)
	if len(s) < 2 || s[0] != '(' {
		return m
	}
	s = s[1 : len(s)-1]
	// split top-level s-exprs
	i := 0
	for i < len(s) {
		for i < len(s) && (s[i] == ' ' || s[i] == '\n') {
			i++
		}
		if i >= len(s) || s[i] != '(' {
			break
		}
		j := matchParen(s, i)
		pair := s[i+1 : j]
		// pair = "term value": term is first sexpr/atom
		k := 0
		if pair[0] == '(' {
			k = matchParen(pair, 0) + 1
		} else {
			for k < len(pair) && pair[k] != ' ' {
				k++
			}
		}
		m[strings.TrimSpace(pair[:k])] = strings.TrimSpace(pair[k:])
		i = j + 1
	}
	return m
}

func matchParen(s string, i int) int {
	depth := 0
	for j := i; j < len(s); j++ {
		switch s[j] {
		case '(':
			depth++
		case ')':
			depth--
			if depth == 0 {
				return j
			}
		}
	}
	return len(s) - 1
}

// smtIntValue converts an SMT value like "5" or "(- 5)" to int64.
func smtIntValue(s string) (int64, bool) {
	s = strings.TrimSpace(s)
	neg := false
	if strings.HasPrefix(s, "(-") {
		neg = true
		s = strings.TrimSpace(s[2 : len(s)-1])
	}
	var v int64
	if s == "" {
		return 0, false
	}
	for _, c := range s {
		if c < '0' || c > '9' {
			return 0, false
		}
		v = v*10 + int64(c-'0')
	}
	if neg {
		v = -v
	}
	return v, true
}


var heapPrefixes = []string{"H$", "A$", "E$", "C$", "GH$", "M$", "MC$", "G$", "KM$", "CH$"}

// heapBases extracts the heap base names (without version suffix) of a formula.
func heapBases(f string) []string {
	var out []string
	seen := map[string]bool{}
	i := 0
	for i < len(f) {
		c := f[i]
		if c == '(' || c == ')' || c == ' ' || c == '\n' {
			i++
			continue
		}
		j := i
		for j < len(f) && f[j] != '(' && f[j] != ')' && f[j] != ' ' && f[j] != '\n' {
			j++
		}
		tok := f[i:j]
		i = j
		isHeap := false
		for _, p := range heapPrefixes {
			if strings.HasPrefix(tok, p) {
				isHeap = true
				break
			}
		}
		if !isHeap {
			continue
		}
		if k := strings.Index(tok, "!"); k >= 0 {
			tok = tok[:k]
		}
		if !seen[tok] {
			seen[tok] = true
			out = append(out, tok)
		}
	}
	return out
}

// slicedQuery is like query but keeps only the assertions that mention no
// heap, or a heap (transitively) related to the goal. Dropping hypotheses is
// always sound; a goal not proved from the slice is retried on the full VC.
func (vc *VC) sliceAsserts(mark int, goal Term) []string {
	vc.mu.Lock()
	for len(vc.bases) < mark {
		vc.bases = append(vc.bases, heapBases(vc.asserts[len(vc.bases)]))
	}
	vc.mu.Unlock()
	rel := map[string]bool{}
	for _, b := range heapBases(goal.S) {
		rel[b] = true
	}
	keep := make([]bool, mark)
	for i := 0; i < mark; i++ {
		if len(vc.bases[i]) == 0 {
			keep[i] = true
		}
	}
	changed := true
	for changed {
		changed = false
		for i := 0; i < mark; i++ {
			if keep[i] {
				continue
			}
			hit := false
			for _, b := range vc.bases[i] {
				if rel[b] {
					hit = true
					break
				}
			}
			if !hit {
				continue
			}
			keep[i] = true
			for _, b := range vc.bases[i] {
				if !rel[b] {
					rel[b] = true
					changed = true
				}
			}
		}
	}
	var out []string
	for i := 0; i < mark; i++ {
		if keep[i] {
			out = append(out, vc.asserts[i])
		}
	}
	return out
}

func (vc *VC) slicedQuery(mark int, goal Term) (string, int) {
	vc.mu.Lock()
	for len(vc.bases) < mark {
		vc.bases = append(vc.bases, heapBases(vc.asserts[len(vc.bases)]))
	}
	vc.mu.Unlock()
	rel := map[string]bool{}
	for _, b := range heapBases(goal.S) {
		rel[b] = true
	}
	keep := make([]bool, mark)
	for i := 0; i < mark; i++ {
		if len(vc.bases[i]) == 0 {
			keep[i] = true
		}
	}
	changed := true
	for changed {
		changed = false
		for i := 0; i < mark; i++ {
			if keep[i] {
				continue
			}
			hit := false
			for _, b := range vc.bases[i] {
				if rel[b] {
					hit = true
					break
				}
			}
			if !hit {
				continue
			}
			keep[i] = true
			for _, b := range vc.bases[i] {
				if !rel[b] {
					rel[b] = true
					changed = true
				}
			}
		}
	}
	var b bytes.Buffer
	b.WriteString("(set-logic ALL)\n")
	for _, d := range vc.decls {
		b.WriteString(d)
		b.WriteByte('\n')
	}
	n := 0
	for i := 0; i < mark; i++ {
		if !keep[i] {
			continue
		}
		n++
		b.WriteString("(assert ")
		b.WriteString(vc.asserts[i])
		b.WriteString(")\n")
	}
	b.WriteString("(assert (not ")
	b.WriteString(goal.S)
	b.WriteString("))\n(check-sat)\n")
	return b.String(), n
}
