package main

// govc replay <file>: re-decides the obligation (or re-runs the island) a replay file names,
// on /repo's current working tree. Exit 1 if it still fails, 0 if it now holds.

import (
	"encoding/json"
	"fmt"
	"os"
	"os/exec"
	"path/filepath"
	"regexp"
	"strings"
)

func init() {
	extraCmds["replay"] = func(args []string) {
		if len(args) < 1 {
			fmt.Fprintln(os.Stderr, "usage: govc replay <file>")
			os.Exit(2)
		}
		data, err := os.ReadFile(args[0])
		if err != nil {
			fmt.Fprintln(os.Stderr, err)
			os.Exit(2)
		}
		var r map[string]interface{}
		if err := json.Unmarshal(data, &r); err != nil {
			fmt.Fprintln(os.Stderr, err)
			os.Exit(2)
		}
		prop, _ := r["property"].(string)
		if cmdline, ok := r["replay"].(string); ok && cmdline != "" {
			// bounded island: the replay is the harness itself on the real code
			fmt.Println("replaying island:", cmdline)
			c := exec.Command("bash", "-c", cmdline)
			c.Stdout, c.Stderr = os.Stdout, os.Stderr
			if err := c.Run(); err != nil {
				fmt.Printf("VIOLATION property=%s replay=%s\n", prop, args[0])
				os.Exit(1)
			}
			fmt.Println("island passes on the current tree")
			return
		}
		ob, _ := r["obligation"].(string)
		i := strings.Index(ob, "#")
		if i < 0 {
			fmt.Printf("replay file names no obligation of a function (%q); re-run the check: /verif/check %s\n", ob, prop)
			os.Exit(2)
		}
		fnKey := ob[:i]
		P, err := loadProg("/repo", []string{"./..."}, []string{"/verif/specs"})
		if err != nil {
			fmt.Fprintln(os.Stderr, err)
			os.Exit(2)
		}
		fns := P.selectFuncs("^" + regexp.QuoteMeta(fnKey) + "$")
		if len(fns) == 0 {
			fmt.Printf("VIOLATION property=%s replay=%s no-failing-input-found\n  function %s no longer exists\n", prop, args[0], fnKey)
			os.Exit(1)
		}
		ensureDir("/verif/out/replay")
		res := P.verifyFunc(fns[0], &VerifyOpts{Timeout: 30, OutDir: "/verif/out/replay", Houdini: true})
		found := false
		for _, o := range res.Obls {
			if o.Name == ob {
				found = true
				fmt.Printf("%s: %s (%s %.2fs)\n", o.Name, o.Res.Status, o.Res.Solver, o.Res.Time)
				if o.Res.Status != "unsat" {
					fmt.Printf("VIOLATION property=%s replay=%s no-failing-input-found\n", prop, args[0])
					os.Exit(1)
				}
			}
		}
		if !found {
			fmt.Printf("obligation %s is not generated on the current tree (the code it was attached to changed)\n", ob)
			os.Exit(1)
		}
		fmt.Println("obligation discharged on the current tree")
	}
}

// Replay of failed parser obligations on the real code: the harness
// /verif/harness/parser_replay_test.go feeds truncated and mutated encodings of the package
// type to the real parser; a concrete failing input found there is attached to the replay file.
func init() {
	reParser := regexp.MustCompile(`^\(\*tds\.(\w+)\)\.ReadFrom$`)
	tryReplay = func(rep *Report, o *Obligation, content map[string]interface{}) bool {
		m := reParser.FindStringSubmatch(o.Fn)
		if m == nil || rep.replayTried[m[1]] {
			if m != nil && len(rep.replayFound[m[1]]) > 0 {
				content["failing_inputs"] = rep.replayFound[m[1]]
				content["replay"] = rep.replayCmd[m[1]]
				return true
			}
			return false
		}
		if rep.replayTried == nil {
			rep.replayTried, rep.replayFound, rep.replayCmd = map[string]bool{}, map[string][]string{}, map[string]string{}
		}
		rep.replayTried[m[1]] = true
		tmp, err := os.MkdirTemp("", "replay")
		if err != nil {
			return false
		}
		defer os.RemoveAll(tmp)
		src := filepath.Join(verifDir, "harness", "parser_replay_test.go")
		dst := filepath.Join("/repo", "tds", "zz_verif_parser_replay_test.go")
		data, _ := json.Marshal(map[string]map[string]string{"Replace": {dst: src}})
		ovf := filepath.Join(tmp, "ov.json")
		os.WriteFile(ovf, data, 0o644)
		cmd := exec.Command("go", "test", "-overlay", ovf, "-vet=off", "-count=1", "-timeout", "120s", "-run", "TestReplayParsers", "-v", ".")
		cmd.Dir = filepath.Join("/repo", "tds")
		cmd.Env = append(os.Environ(), "GOFLAGS=-mod=mod", "GOPROXY=off", "GOSUMDB=off", "GOTOOLCHAIN=local", "REPLAY_TYPE="+m[1])
		out, _ := cmd.CombinedOutput()
		var res struct {
			Failures []string `json:"failures"`
		}
		for _, l := range strings.Split(string(out), "\n") {
			if i := strings.Index(l, "REPLAY "); i >= 0 {
				json.Unmarshal([]byte(l[i+7:]), &res)
			}
		}
		var found []string
		for _, f := range res.Failures {
			if !strings.HasPrefix(f, "alloc-before-available") {
				found = append(found, f)
			}
		}
		if len(found) == 0 {
			return false
		}
		rep.replayFound[m[1]] = found
		rep.replayCmd[m[1]] = fmt.Sprintf("REPLAY_TYPE=%s /verif/tools/overlay_test.sh /repo tds /verif/harness/parser_replay_test.go -run TestReplayParsers -v", m[1])
		content["failing_inputs"] = found
		content["replay"] = rep.replayCmd[m[1]]
		return true
	}
}
