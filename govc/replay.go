package main

// govc replay <file>: re-decides the obligation (or re-runs the island) a replay file names,
// on /repo's current working tree. Exit 1 if it still fails, 0 if it now holds.

import (
	"encoding/json"
	"fmt"
	"os"
	"os/exec"
	"regexp"
	"strings"
)

func init() {
	extraCmds["replay"] = func(args []string) {
		if len(args) < 1 {
			fmt.Fprintln(os.Stderr, "usage: govc replay <file>")
			os.Exit(2)
		}
		data, err := os.ReadFile(args[0])
		if err != nil {
			fmt.Fprintln(os.Stderr, err)
			os.Exit(2)
		}
		var r map[string]interface{}
		if err := json.Unmarshal(data, &r); err != nil {
			fmt.Fprintln(os.Stderr, err)
			os.Exit(2)
		}
		prop, _ := r["property"].(string)
		if cmdline, ok := r["replay"].(string); ok && cmdline != "" {
			// bounded island: the replay is the harness itself on the real code
			fmt.Println("replaying island:", cmdline)
			c := exec.Command("bash", "-c", cmdline)
			c.Stdout, c.Stderr = os.Stdout, os.Stderr
			if err := c.Run(); err != nil {
				fmt.Printf("VIOLATION property=%s replay=%s\n", prop, args[0])
				os.Exit(1)
			}
			fmt.Println("island passes on the current tree")
			return
		}
		ob, _ := r["obligation"].(string)
		i := strings.Index(ob, "#")
		if i < 0 {
			fmt.Printf("replay file names no obligation of a function (%q); re-run the check: /verif/check %s\n", ob, prop)
			os.Exit(2)
		}
		fnKey := ob[:i]
		P, err := loadProg("/repo", []string{"./..."}, []string{"/verif/specs"})
		if err != nil {
			fmt.Fprintln(os.Stderr, err)
			os.Exit(2)
		}
		fns := P.selectFuncs("^" + regexp.QuoteMeta(fnKey) + "$")
		if len(fns) == 0 {
			fmt.Printf("VIOLATION property=%s replay=%s no-failing-input-found\n  function %s no longer exists\n", prop, args[0], fnKey)
			os.Exit(1)
		}
		ensureDir("/verif/out/replay")
		res := P.verifyFunc(fns[0], &VerifyOpts{Timeout: 30, OutDir: "/verif/out/replay", Houdini: true})
		found := false
		for _, o := range res.Obls {
			if o.Name == ob {
				found = true
				fmt.Printf("%s: %s (%s %.2fs)\n", o.Name, o.Res.Status, o.Res.Solver, o.Res.Time)
				if o.Res.Status != "unsat" {
					fmt.Printf("VIOLATION property=%s replay=%s no-failing-input-found\n", prop, args[0])
					os.Exit(1)
				}
			}
		}
		if !found {
			fmt.Printf("obligation %s is not generated on the current tree (the code it was attached to changed)\n", ob)
			os.Exit(1)
		}
		fmt.Println("obligation discharged on the current tree")
	}
}
