package main

// Engine-side quantifier instantiation. Universally quantified hypotheses that
// occur with positive polarity are additionally instantiated at seed terms taken
// from the goal (skolem constants of the goal's own universal variables, index
// terms of selects in the goal, each also +1 / -1). The instances are logical
// consequences of the hypotheses, so adding them is sound; they spare the
// solvers the trigger search that makes such goals time out.

import (
	"fmt"
	"sort"
	"strings"
)

type sx struct {
	atom string
	kids []*sx
}

func parseSx(s string) *sx {
	pos := 0
	var rec func() *sx
	rec = func() *sx {
		for pos < len(s) && (s[pos] == ' ' || s[pos] == '\n') {
			pos++
		}
		if pos >= len(s) {
			return nil
		}
		if s[pos] == '(' {
			pos++
			n := &sx{}
			for {
				for pos < len(s) && (s[pos] == ' ' || s[pos] == '\n') {
					pos++
				}
				if pos >= len(s) {
					return n
				}
				if s[pos] == ')' {
					pos++
					return n
				}
				n.kids = append(n.kids, rec())
			}
		}
		st := pos
		for pos < len(s) && s[pos] != ' ' && s[pos] != '(' && s[pos] != ')' && s[pos] != '\n' {
			pos++
		}
		return &sx{atom: s[st:pos]}
	}
	return rec()
}

func (n *sx) String() string {
	if n.kids == nil && n.atom != "" {
		return n.atom
	}
	var b strings.Builder
	n.write(&b)
	return b.String()
}

func (n *sx) write(b *strings.Builder) {
	if n.kids == nil && n.atom != "" {
		b.WriteString(n.atom)
		return
	}
	b.WriteByte('(')
	for i, k := range n.kids {
		if i > 0 {
			b.WriteByte(' ')
		}
		k.write(b)
	}
	b.WriteByte(')')
}

func (n *sx) head() string {
	if len(n.kids) > 0 && n.kids[0].kids == nil {
		return n.kids[0].atom
	}
	return ""
}

func (n *sx) subst(m map[string]*sx) *sx {
	if n.kids == nil {
		if r, ok := m[n.atom]; ok {
			return r
		}
		return n
	}
	c := &sx{kids: make([]*sx, len(n.kids))}
	for i, k := range n.kids {
		c.kids[i] = k.subst(m)
	}
	return c
}

// quantVars returns the bound variable names of a (forall ((v Int)...) body) node and its body
// (looking through a (! body :pattern ...) annotation).
func quantParts(n *sx) ([]string, *sx) {
	var vars []string
	for _, b := range n.kids[1].kids {
		vars = append(vars, b.kids[0].atom)
	}
	body := n.kids[2]
	if body.head() == "!" {
		body = body.kids[1]
	}
	return vars, body
}

// positiveForalls collects forall nodes that occur with positive polarity.
func positiveForalls(n *sx, pos bool, out *[]*sx) {
	if n == nil || n.kids == nil {
		return
	}
	switch n.head() {
	case "forall":
		if pos {
			*out = append(*out, n)
		}
		return // do not descend into nested quantifier bodies
	case "exists":
		return
	case "not":
		positiveForalls(n.kids[1], !pos, out)
	case "=>":
		for i := 1; i < len(n.kids)-1; i++ {
			positiveForalls(n.kids[i], !pos, out)
		}
		positiveForalls(n.kids[len(n.kids)-1], pos, out)
	case "and", "or":
		for _, k := range n.kids[1:] {
			positiveForalls(k, pos, out)
		}
	case "ite":
		// condition has both polarities: skip it
		if len(n.kids) == 4 {
			positiveForalls(n.kids[2], pos, out)
			positiveForalls(n.kids[3], pos, out)
		}
	case "=":
		// Boolean equality has both polarities: skip
	}
}

// replaceNode returns a copy of n in which the node target is replaced by repl.
func replaceNode(n, target, repl *sx) *sx {
	if n == target {
		return repl
	}
	if n.kids == nil {
		return n
	}
	c := &sx{kids: make([]*sx, len(n.kids))}
	changed := false
	for i, k := range n.kids {
		c.kids[i] = replaceNode(k, target, repl)
		if c.kids[i] != k {
			changed = true
		}
	}
	if !changed {
		return n
	}
	return c
}

func collectIndexTerms(n *sx, bound map[string]bool, out map[string]*sx) {
	if n == nil || n.kids == nil {
		return
	}
	if n.head() == "forall" || n.head() == "exists" {
		return
	}
	if n.head() == "select" && len(n.kids) == 3 {
		idx := n.kids[2]
		addSeed(idx, out)
		if idx.head() == "+" {
			for _, k := range idx.kids[1:] {
				addSeed(k, out)
				if k.head() == "+" {
					for _, kk := range k.kids[1:] {
						addSeed(kk, out)
					}
				}
			}
		}
	}
	for _, k := range n.kids {
		collectIndexTerms(k, bound, out)
	}
}

func addSeed(t *sx, out map[string]*sx) {
	s := t.String()
	if len(s) > 160 {
		return
	}
	// integer literals: only those that are themselves an index in the goal (a fixed
	// layout offset); the small ones are added separately
	if t.kids == nil {
		if v, ok := smtIntValue(s); ok && (v < 8 || v > 100000) {
			return
		}
	}
	if strings.Contains(s, "forall") {
		return
	}
	out[s] = t
}

func atomSx(s string) *sx { return &sx{atom: s} }

func plusSx(t *sx, d int) *sx {
	if d == 0 {
		return t
	}
	if d > 0 {
		return &sx{kids: []*sx{atomSx("+"), t, atomSx(fmt.Sprint(d))}}
	}
	return &sx{kids: []*sx{atomSx("-"), t, atomSx(fmt.Sprint(-d))}}
}

// instantiatedQuery renders the query for goal with engine-side instantiation.
// It returns the script and the number of instances added.
func (vc *VC) instantiatedQuery(mark int, goal Term, sliced bool, lean bool) (string, int) {
	g := parseSx(goal.S)
	var decls []string
	// 1. skolemise the goal's positive universals
	var gq []*sx
	positiveForalls(g, true, &gq)
	seeds := map[string]*sx{}
	skN := 0
	var skolems []*sx
	for _, q := range gq {
		vars, body := quantParts(q)
		m := map[string]*sx{}
		for _, v := range vars {
			skN++
			name := fmt.Sprintf("sk!%d!%s", skN, v)
			decls = append(decls, fmt.Sprintf("(declare-fun %s () Int)", name))
			m[v] = atomSx(name)
			skolems = append(skolems, atomSx(name))
		}
		g = replaceNode(g, q, body.subst(m))
	}
	for _, s := range skolems {
		seeds[s.String()] = s
	}
	collectIndexTerms(g, nil, seeds)
	// arithmetic terms of the goal that contain a skolem (e.g. sk + d) are natural
	// instantiation points for hypotheses over the same variable
	skTerms := map[string][]*sx{}
	var walkArith func(n *sx)
	walkArith = func(n *sx) {
		if n == nil || n.kids == nil {
			return
		}
		if h := n.head(); h == "+" || h == "-" {
			str := n.String()
			if len(str) <= 220 {
				for _, sk := range skolems {
					if strings.Contains(str, sk.atom) {
						skTerms[sk.atom] = append(skTerms[sk.atom], n)
					}
				}
			}
		}
		for _, k := range n.kids {
			walkArith(k)
		}
	}
	walkArith(g)
	// order seeds: skolems first, then by length; cap
	var keys []string
	for k := range seeds {
		keys = append(keys, k)
	}
	sort.Slice(keys, func(i, j int) bool {
		si, sj := strings.HasPrefix(keys[i], "sk!"), strings.HasPrefix(keys[j], "sk!")
		if si != sj {
			return si
		}
		if len(keys[i]) != len(keys[j]) {
			return len(keys[i]) < len(keys[j])
		}
		return keys[i] < keys[j]
	})
	if len(keys) > 16 {
		keys = keys[:16]
	}
	var seedList, plainSeeds []*sx
	for _, k := range keys {
		t := seeds[k]
		seedList = append(seedList, t, plusSx(t, 1), plusSx(t, -1))
		plainSeeds = append(plainSeeds, t)
	}
	// 1b. existentials the goal has to establish: offer the seed terms as witnesses
	// (proving one instance proves the existential, so this only strengthens the goal)
	{
		var eqs []*sx
		positiveExists(g, true, &eqs)
		for _, q := range eqs {
			vars, body := quantParts(q)
			if len(vars) != 1 {
				continue
			}
			var alts []*sx
			for _, t := range seedList {
				alts = append(alts, body.subst(map[string]*sx{vars[0]: t}))
			}
			for d := 0; d < 3; d++ {
				alts = append(alts, body.subst(map[string]*sx{vars[0]: atomSx(fmt.Sprint(d))}))
			}
			if len(alts) > 0 {
				g = replaceNode(g, q, &sx{kids: append([]*sx{atomSx("or")}, alts...)})
			}
		}
	}
	// 2. instantiate positive universals of the hypotheses
	var extra []string
	total := 0
	limit := 4000
	var asserts []string
	if sliced {
		asserts = vc.sliceAsserts(mark, goal)
	} else {
		asserts = vc.asserts[:mark]
	}
	dropped := map[int]bool{}
	// 2a. trigger-based instances of the engine's own frame / typing axioms
	// (forall ((v Int)) (! body :pattern ((select ARR v)))): instantiate at every ground index
	// term t for which (select ARR t) occurs in the query, closing over the arrays the body
	// relates (frame chains H!e3 -> H!e2 -> ...). These are consequences of the hypotheses, so
	// adding them is sound; they make the ground stage (quantified hypotheses dropped) complete
	// enough for goals that depend on frames.
	extra = append(extra, vc.triggerInstances(asserts, g)...)
	for ai, a := range asserts {
		if !strings.Contains(a, "(forall") || total > limit {
			continue
		}
		n := parseSx(a)
		var qs []*sx
		positiveForalls(n, true, &qs)
		for _, q := range qs {
			vars, body := quantParts(q)
			if len(vars) > 2 {
				continue
			}
			// engine-internal frame axioms (fr/ai/ci/...) are handled well by triggers
			if !strings.Contains(vars[0], "!q") {
				continue
			}
			var insts []*sx
			// seeds for a variable: skolems of goal variables with the same name stem
			// (j with j, i with i) if there are any, otherwise all seeds
			seedsFor := func(v string) []*sx {
				stem := v
				if k := strings.Index(v, "!"); k >= 0 {
					stem = v[:k]
				}
				var out []*sx
				for _, sk := range skolems {
					parts := strings.SplitN(sk.atom, "!", 4) // sk!N!stem!qM
					if len(parts) >= 3 && parts[2] == stem {
						out = append(out, sk)
						if len(vars) == 1 {
							out = append(out, plusSx(sk, 1), plusSx(sk, -1))
						}
						seen := map[string]bool{}
						for _, t := range skTerms[sk.atom] {
							if ts := t.String(); !seen[ts] && len(seen) < 6 {
								seen[ts] = true
								out = append(out, t)
							}
						}
					}
				}
				if len(vars) == 1 || len(out) == 0 {
					// also the skolems of other goal variables (a one-variable hypothesis is
					// often needed at each of the goal's variables)
					have := map[string]bool{}
					for _, o := range out {
						have[o.String()] = true
					}
					for _, sk := range skolems {
						if !have[sk.atom] {
							out = append(out, sk)
							if len(vars) == 1 {
								out = append(out, plusSx(sk, 1), plusSx(sk, -1))
								// offsets of the skolem that occur in the goal (sk - base)
								nadd := 0
								for _, t := range skTerms[sk.atom] {
									if ts := t.String(); !have[ts] && nadd < 4 {
										have[ts] = true
										nadd++
										out = append(out, t)
									}
								}
							}
						}
					}
				}
				if len(out) == 0 && lean && len(skolems) == 0 && len(vars) == 1 {
					// a ground goal: its own index terms are the natural instantiation points
					out = plainSeeds
					if len(out) > 12 {
						out = out[:12]
					}
				}
				if len(out) == 0 && !lean {
					if len(vars) > 1 {
						out = plainSeeds
					} else {
						out = seedList
					}
				}
				if len(vars) == 1 {
					// small literal indices (fixed-size encodings are proved byte by byte)
					nlit := 4
					if !lean {
						nlit = 8
					}
					for d := 0; d < nlit; d++ {
						out = append(out, atomSx(fmt.Sprint(d)))
					}
				}
				return out
			}
			if len(vars) == 1 {
				for _, t := range seedsFor(vars[0]) {
					insts = append(insts, body.subst(map[string]*sx{vars[0]: t}))
				}
				// single-variable hypotheses are cheap: also use the general seeds
				if !lean && len(seedsFor(vars[0])) != len(seedList) {
					for _, t := range seedList {
						insts = append(insts, body.subst(map[string]*sx{vars[0]: t}))
					}
				}
			} else {
				s1, s2 := seedsFor(vars[0]), seedsFor(vars[1])
				// no goal variable with the same name: combine the goal's skolem terms
				// with its ground index terms (e.g. content(j := cursor, i := offset + k))
				mixed := func(v string, cur []*sx) []*sx {
					stem := v
					if k := strings.Index(v, "!"); k >= 0 {
						stem = v[:k]
					}
					for _, sk := range skolems {
						parts := strings.SplitN(sk.atom, "!", 4)
						if len(parts) >= 3 && parts[2] == stem {
							return cur
						}
					}
					var out []*sx
					seen := map[string]bool{}
					add := func(t *sx) {
						if ts := t.String(); !seen[ts] && len(out) < 9 {
							seen[ts] = true
							out = append(out, t)
						}
					}
					for _, sk := range skolems {
						for _, t := range skTerms[sk.atom] {
							if len(t.String()) < 120 {
								add(t)
							}
						}
					}
					add(atomSx("0"))
					for _, t := range plainSeeds {
						if !strings.HasPrefix(t.String(), "sk!") {
							add(t)
						}
					}
					return out
				}
				if len(skolems) > 0 {
					s1, s2 = mixed(vars[0], s1), mixed(vars[1], s2)
				}
				if len(s1) > 16 {
					s1 = s1[:16]
				}
				if len(s2) > 16 {
					s2 = s2[:16]
				}
				for _, t1 := range s1 {
					for _, t2 := range s2 {
						insts = append(insts, body.subst(map[string]*sx{vars[0]: t1, vars[1]: t2}))
					}
				}
			}
			if len(insts) == 0 {
				if lean {
					// lean mode: a hypothesis without a matching skolem is dropped
					n = replaceNode(n, q, atomSx("true"))
					dropped[ai] = true
				}
				continue
			}
			conj := &sx{kids: append([]*sx{atomSx("and")}, insts...)}
			n = replaceNode(n, q, conj)
			total += len(insts)
			dropped[ai] = true
		}
		if dropped[ai] {
			// the instantiated copy replaces the quantified hypothesis (weaker, hence sound)
			extra = append(extra, n.String())
		}
	}
	var b strings.Builder
	b.WriteString("(set-logic ALL)\n")
	for _, d := range vc.decls {
		b.WriteString(d)
		b.WriteByte('\n')
	}
	for _, d := range decls {
		b.WriteString(d)
		b.WriteByte('\n')
	}
	for ai, a := range asserts {
		if dropped[ai] {
			continue
		}
		b.WriteString("(assert ")
		b.WriteString(a)
		b.WriteString(")\n")
	}
	for _, a := range extra {
		b.WriteString("(assert ")
		b.WriteString(a)
		b.WriteString(")\n")
	}
	b.WriteString("(assert (not ")
	b.WriteString(g.String())
	b.WriteString("))\n(check-sat)\n")
	return b.String(), total
}


// positiveExists collects exists nodes that occur with positive polarity.
func positiveExists(n *sx, pos bool, out *[]*sx) {
	if n == nil || n.kids == nil {
		return
	}
	switch n.head() {
	case "exists":
		if pos {
			*out = append(*out, n)
		}
		return
	case "forall":
		return
	case "not":
		positiveExists(n.kids[1], !pos, out)
	case "=>":
		for i := 1; i < len(n.kids)-1; i++ {
			positiveExists(n.kids[i], !pos, out)
		}
		positiveExists(n.kids[len(n.kids)-1], pos, out)
	case "and", "or":
		for _, k := range n.kids[1:] {
			positiveExists(k, pos, out)
		}
	case "ite":
		if len(n.kids) == 4 {
			positiveExists(n.kids[2], pos, out)
			positiveExists(n.kids[3], pos, out)
		}
	}
}


// collectGroundSelects records, for every array atom A, the ground index terms t of the
// sub-terms (select A t) of n (terms mentioning a bound variable are skipped).
func collectGroundSelects(n *sx, bound map[string]bool, out map[string]map[string]*sx) {
	if n == nil || n.kids == nil {
		return
	}
	h := n.head()
	if h == "forall" || h == "exists" {
		nb := map[string]bool{}
		for k, v := range bound {
			nb[k] = v
		}
		for _, b := range n.kids[1].kids {
			nb[b.kids[0].atom] = true
		}
		for _, k := range n.kids[2:] {
			collectGroundSelects(k, nb, out)
		}
		return
	}
	if h == "select" && len(n.kids) == 3 && n.kids[1].kids == nil {
		idx := n.kids[2]
		if !mentionsBound(idx, bound) {
			s := idx.String()
			if len(s) <= 400 {
				a := n.kids[1].atom
				if out[a] == nil {
					out[a] = map[string]*sx{}
				}
				out[a][s] = idx
			}
		}
	}
	for _, k := range n.kids {
		collectGroundSelects(k, bound, out)
	}
}

func mentionsBound(n *sx, bound map[string]bool) bool {
	if n == nil {
		return false
	}
	if n.kids == nil {
		return bound[n.atom]
	}
	for _, k := range n.kids {
		if mentionsBound(k, bound) {
			return true
		}
	}
	return false
}

type trigQ struct {
	v      string
	arr    string
	body   *sx
	guard  []*sx // antecedents the quantifier sits under (=> g1 (=> g2 (forall ...)))
	others []string
}

// triggerInstances: see the comment at its call site.
func (vc *VC) triggerInstances(asserts []string, goal *sx) []string {
	idx := map[string]map[string]*sx{}
	var qs []*trigQ
	for _, a := range asserts {
		if len(a) > 2000000 {
			continue
		}
		n := parseSx(a)
		collectGroundSelects(n, map[string]bool{}, idx)
		if !strings.Contains(a, ":pattern") {
			continue
		}
		// peel (=> g body) wrappers
		var guards []*sx
		cur := n
		for cur != nil && cur.head() == "=>" && len(cur.kids) == 3 {
			guards = append(guards, cur.kids[1])
			cur = cur.kids[2]
		}
		if cur == nil || cur.head() != "forall" || len(cur.kids) < 3 || len(cur.kids[1].kids) != 1 {
			continue
		}
		v := cur.kids[1].kids[0].kids[0].atom
		if strings.Contains(v, "!q") {
			continue
		}
		inner := cur.kids[2]
		if inner.head() != "!" || len(inner.kids) < 4 {
			continue
		}
		pat := inner.kids[3]
		if pat.kids == nil || len(pat.kids) != 1 {
			continue
		}
		pt := pat.kids[0]
		if pt.head() != "select" || len(pt.kids) != 3 || pt.kids[1].kids != nil || pt.kids[2].kids != nil || pt.kids[2].atom != v {
			continue
		}
		q := &trigQ{v: v, arr: pt.kids[1].atom, body: inner.kids[1], guard: guards}
		// other arrays selected at v in the body
		var walk func(m *sx)
		seen := map[string]bool{q.arr: true}
		walk = func(m *sx) {
			if m == nil || m.kids == nil {
				return
			}
			if m.head() == "select" && len(m.kids) == 3 && m.kids[1].kids == nil && m.kids[2].kids == nil && m.kids[2].atom == v {
				if !seen[m.kids[1].atom] {
					seen[m.kids[1].atom] = true
					q.others = append(q.others, m.kids[1].atom)
				}
			}
			for _, k := range m.kids {
				walk(k)
			}
		}
		walk(q.body)
		qs = append(qs, q)
	}
	collectGroundSelects(goal, map[string]bool{}, idx)
	// close the index sets over the frame chains
	for round := 0; round < 10; round++ {
		changed := false
		for _, q := range qs {
			for k, t := range idx[q.arr] {
				for _, o := range q.others {
					if idx[o] == nil {
						idx[o] = map[string]*sx{}
					}
					if _, ok := idx[o][k]; !ok && len(idx[o]) < 60 {
						idx[o][k] = t
						changed = true
					}
				}
			}
		}
		if !changed {
			break
		}
	}
	var out []string
	total := 0
	for _, q := range qs {
		var keys []string
		for k := range idx[q.arr] {
			keys = append(keys, k)
		}
		sort.Strings(keys)
		if len(keys) > 40 {
			keys = keys[:40]
		}
		for _, k := range keys {
			if total > 3000 {
				return out
			}
			inst := q.body.subst(map[string]*sx{q.v: idx[q.arr][k]})
			for i := len(q.guard) - 1; i >= 0; i-- {
				inst = &sx{kids: []*sx{atomSx("=>"), q.guard[i], inst}}
			}
			out = append(out, inst.String())
			total++
		}
	}
	return out
}
