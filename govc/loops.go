package main

// Loop cutting: invariants (declared and inferred candidates), havoc, back edges.

import (
	"strings"
	"fmt"
	"go/token"
	"go/types"
	"sort"

	"golang.org/x/tools/go/ssa"
)

// autoInv is an inferred invariant candidate expressed over SSA values.
type autoInv struct {
	label string
	build func(fr *Frame, st *State, phi map[*ssa.Phi]Val, entrySt *State) Term
}

func (fr *Frame) phis(b *ssa.BasicBlock) []*ssa.Phi {
	var ps []*ssa.Phi
	for _, in := range b.Instrs {
		if p, ok := in.(*ssa.Phi); ok {
			ps = append(ps, p)
		} else {
			break
		}
	}
	return ps
}

func (fr *Frame) loopEnv(li *loopInfo, st *State, override map[*ssa.Phi]Val) *SpecEnv {
	env := fr.ex.newEnv(st, fr.entry, fr)
	c := fr.ex.P.contractFor(fr.fn)
	if c != nil {
		env.pkg = contractPkg(c.Func)
	} else if pk := fnPkg(fr.fn); pk != nil {
		env.pkg = shortPkg(pk.Path())
	}
	fr.bindTopVars(env)
	env.locals = func(name string) (Val, bool) {
		return fr.localByName(name, li.header, st, override)
	}
	env.loopEntry = li.entrySt
	return env
}

func (fr *Frame) candidates(li *loopInfo) []autoInv {
	var cs []autoInv
	h := li.header
	inLoop := func(v ssa.Value) bool {
		if in, ok := v.(ssa.Instruction); ok {
			return li.body[in.Block()]
		}
		return false
	}
	for _, phi := range fr.phis(h) {
		phi := phi
		_, _, isInt := intRange(phi.Type())
		if !isInt {
			continue
		}
		name := phi.Comment
		if name == "" {
			name = phi.Name()
		}
		// (a) lower bound from a constant entry value
		for i, p := range h.Preds {
			if fr.isBack(p, h) {
				continue
			}
			if c, ok := constInt(phi.Edges[i]); ok {
				c := c
				cs = append(cs, autoInv{fmt.Sprintf("%s>=%d", name, c), func(fr *Frame, st *State, pv map[*ssa.Phi]Val, _ *State) Term {
					return Ge(pv[phi].one(), Int(c))
				}})
			}
		}
		// (b) upper bounds from comparisons against loop-invariant values
		for b := range li.body {
			for _, in := range b.Instrs {
				bo, ok := in.(*ssa.BinOp)
				if !ok {
					continue
				}
				var other ssa.Value
				var strictLess bool
				// comparisons on phi+c (c>0), e.g. the rangeindex pattern
				if add, ok := bo.X.(*ssa.BinOp); ok && add.Op == token.ADD && add.X == phi && bo.Op == token.LSS && !inLoop(bo.Y) {
					if c, isC := constInt(add.Y); isC && c > 0 {
						o2 := bo.Y
						cs = append(cs, autoInv{fmt.Sprintf("%s<%s", name, exprLabel(fr, o2)), func(fr *Frame, st *State, pv map[*ssa.Phi]Val, _ *State) Term {
							return Lt(pv[phi].one(), fr.ex.val(fr, o2, st).one())
						}})
					}
				}
				switch {
				case bo.X == phi && (bo.Op == token.LSS || bo.Op == token.NEQ):
					other, strictLess = bo.Y, true
				case bo.X == phi && bo.Op == token.LEQ:
					other = bo.Y
				case bo.Y == phi && bo.Op == token.GTR:
					other, strictLess = bo.X, true
				case bo.Y == phi && bo.Op == token.GEQ:
					other = bo.X
				case bo.X == phi && bo.Op == token.GEQ: // i >= n -> exit
					other, strictLess = bo.Y, true
				default:
					continue
				}
				if inLoop(other) {
					continue
				}
				other2 := other
				_ = strictLess
				cs = append(cs, autoInv{fmt.Sprintf("%s<=%s", name, exprLabel(fr, other2)), func(fr *Frame, st *State, pv map[*ssa.Phi]Val, _ *State) Term {
					return Le(pv[phi].one(), fr.ex.val(fr, other2, st).one())
				}})
			}
		}
	}
	// (e) slices built inside the function stay fresh (or nil) across iterations
	for _, phi := range fr.phis(h) {
		phi := phi
		if !isSlice(phi.Type()) {
			continue
		}
		name := phi.Comment
		if name == "" {
			name = phi.Name()
		}
		cs = append(cs, autoInv{fmt.Sprintf("%s fresh-or-nil", name), func(fr *Frame, st *State, pv map[*ssa.Phi]Val, _ *State) Term {
			a := pv[phi].L[0]
			return Or(Eq(a, Int(0)), And(Gt(a, fr.entry.alloc), Le(a, st.alloc)))
		}})
	}
	// (c) ghost fields of interface/pointer parameters: booleans unchanged, ints monotone
	var gnames []string
	for k := range fr.ex.P.db.Ghosts {
		gnames = append(gnames, k)
	}
	sort.Strings(gnames)
	for _, gk := range gnames {
		gf := fr.ex.P.db.Ghosts[gk]
		if !li.keys["GH:"+gf.Owner+"."+gf.Name] && !li.keys["*"] {
			continue
		}
		if gf.Sort != SBool && gf.Sort != SInt {
			continue
		}
		var holders []ssa.Value
		for _, p := range fr.fn.Params {
			holders = append(holders, p)
		}
		for _, p := range fr.fn.FreeVars {
			holders = append(holders, p)
		}
		for _, p := range holders {
			p := p
			tn := typeName(p.Type())
			if tn != gf.Owner && tn != "*"+gf.Owner {
				continue
			}
			gf := gf
			if gf.Sort == SBool {
				cs = append(cs, autoInv{fmt.Sprintf("%s.%s unchanged", p.Name(), gf.Name), func(fr *Frame, st *State, _ map[*ssa.Phi]Val, entry *State) Term {
					env := fr.ex.newEnv(st, st, fr)
					h := env.ghostHeap(gf)
					r := refOf(fr.vals[p])
					return Eq(Select(st.get(h), r), Select(entry.get(h), r))
				}})
			} else {
				cs = append(cs, autoInv{fmt.Sprintf("%s.%s monotone", p.Name(), gf.Name), func(fr *Frame, st *State, _ map[*ssa.Phi]Val, entry *State) Term {
					env := fr.ex.newEnv(st, st, fr)
					h := env.ghostHeap(gf)
					r := refOf(fr.vals[p])
					return Ge(Select(st.get(h), r), Select(entry.get(h), r))
				}})
			}
		}
	}
	// (e') array ghosts: the prefix below the function-entry value of an int ghost of the
	// same owner is kept (append-only streams)
	for _, gk := range gnames {
		ga := fr.ex.P.db.Ghosts[gk]
		if ga.Sort == SBool || ga.Sort == SInt {
			continue
		}
		if !li.keys["GH:"+ga.Owner+"."+ga.Name] && !li.keys["*"] {
			continue
		}
		for _, gk2 := range gnames {
			gi := fr.ex.P.db.Ghosts[gk2]
			if gi.Sort != SInt || gi.Owner != ga.Owner {
				continue
			}
			for _, p := range fr.fn.Params {
				p := p
				tn := typeName(p.Type())
				if tn != ga.Owner && tn != "*"+ga.Owner {
					continue
				}
				ga, gi := ga, gi
				cs = append(cs, autoInv{fmt.Sprintf("keep prefix %s.%s below %s", p.Name(), ga.Name, gi.Name), func(fr *Frame, st *State, _ map[*ssa.Phi]Val, entry *State) Term {
					env := fr.ex.newEnv(st, st, fr)
					ha, hi := env.ghostHeap(ga), env.ghostHeap(gi)
					r := refOf(fr.vals[p])
					k := Term{"gk", SInt}
					return Forall([]string{"gk"}, Implies(And(Le(Int(0), k), Lt(k, Select(fr.entry.get(hi), r))), Eq(Select(Select(st.get(ha), r), k), Select(Select(fr.entry.get(ha), r), k))))
				}})
			}
		}
	}
	// (f) frame candidates: a heap the loop may write is unchanged on the objects
	// that existed when the function was entered
	var hnames []string
	for n := range fr.ex.P.knownHeaps {
		hnames = append(hnames, n)
	}
	sort.Strings(hnames)
	for _, n := range hnames {
		hk := fr.ex.P.knownHeaps[n]
		if hk.Dim < 1 || !(li.keys[hk.Key] || li.keys["*"]) || strings.HasPrefix(hk.Key, "K:") || strings.HasPrefix(hk.Key, "CH:") {
			continue
		}
		cs = append(cs, autoInv{"frame " + n, func(fr *Frame, st *State, _ map[*ssa.Phi]Val, entry *State) Term {
			var excl []Term
			if !fr.inline && fr.contract != nil && fr.contract.HasMod {
				env := fr.ex.newEnv(fr.entry, fr.entry, fr)
				env.pkg = contractPkg(fr.contract.Func)
				fr.bindTopVars(env)
				if fr.contract.ThisAlias && len(fr.fn.Params) > 0 {
					env.vars["this"] = fr.vals[fr.fn.Params[0]]
				}
				func() {
					defer func() { recover() }()
					for _, m := range fr.contract.Modifies {
						if m.Whole || m.Star {
							continue
						}
						for _, tl := range env.evalLocs(m.E) {
							for _, th := range tl.heaps {
								if th.Name == hk.Name && len(tl.idx) > 0 {
									excl = append(excl, tl.idx[0])
								}
							}
						}
					}
				}()
			}
			hh := fr.ex.heaps[hk.Name]
			if hh == nil {
				// register under the same name
				fr.ex.heaps[hk.Name] = &HeapInfo{Name: hk.Name, Sort: hk.Sort, Key: hk.Key, Dim: hk.Dim, Leaf: hk.Leaf}
				hh = fr.ex.heaps[hk.Name]
			}
			r := Term{"lf", SInt}
			conds := []Term{Le(Int(1), r), Le(r, fr.entry.alloc)}
			for _, x := range excl {
				conds = append(conds, Ne(r, x))
			}
			return Forall([]string{"lf"}, Implies(And(conds...), Eq(Select(st.get(hh), r), Select(entry.get(hh), r))))
		}})
	}
	// (g) fields of objects named by pointers defined outside the loop keep their value
	var ptrs []ssa.Value
	for _, pv := range fr.fn.Params {
		ptrs = append(ptrs, pv)
	}
	for _, b := range fr.fn.Blocks {
		if li.body[b] || !b.Dominates(h) {
			continue
		}
		for _, in := range b.Instrs {
			if a, ok := in.(*ssa.Alloc); ok {
				ptrs = append(ptrs, a)
			}
		}
	}
	for _, pv := range ptrs {
		pt, ok := under(pv.Type()).(*types.Pointer)
		if !ok || !isStruct(pt.Elem()) {
			continue
		}
		root := typeName(pt.Elem())
		pv := pv
		for _, n := range hnames {
			hk := fr.ex.P.knownHeaps[n]
			if hk.Dim != 1 || !strings.HasPrefix(n, "H$"+root+"$") || !(li.keys[hk.Key] || li.keys["*"]) {
				continue
			}
			cs = append(cs, autoInv{fmt.Sprintf("keep %s%s", exprLabel(fr, pv), strings.TrimPrefix(n, "H$"+root+"$")), func(fr *Frame, st *State, _ map[*ssa.Phi]Val, entry *State) Term {
				hh := fr.ex.heaps[hk.Name]
				if hh == nil {
					fr.ex.heaps[hk.Name] = &HeapInfo{Name: hk.Name, Sort: hk.Sort, Key: hk.Key, Dim: hk.Dim, Leaf: hk.Leaf}
					hh = fr.ex.heaps[hk.Name]
				}
				v, ok := fr.vals[pv]
				if !ok || len(v.L) != 1 || (v.P != nil && !isDefaultLoc(v.T, v.P)) {
					return True
				}
				return Eq(Select(st.get(hh), v.L[0]), Select(entry.get(hh), v.L[0]))
			}})
		}
	}
	// (d) per-type parameter invariants (paraminv) are natural loop invariants
	for _, p := range fr.fn.Params {
		p := p
		for _, cl := range fr.ex.P.db.ParamInv[typeName(p.Type())] {
			cl := cl
			cs = append(cs, autoInv{fmt.Sprintf("paraminv %s/%s", p.Name(), cl.Label), func(fr *Frame, st *State, _ map[*ssa.Phi]Val, entry *State) Term {
				env := fr.ex.newEnv(st, st, fr)
				env.pkg = contractPkgOf(typeName(p.Type()))
				env.vars["this"] = fr.vals[p]
				return safeEval(env, cl)
			}})
		}
	}
	return cs
}

func (fr *Frame) loopKey(li *loopInfo) string {
	return fmt.Sprintf("%s/loop%d", funcKey(fr.fn), li.ordinal)
}

func (fr *Frame) enterLoop(li *loopInfo, in *State) *State {
	ex := fr.ex
	phis := fr.phis(li.header)
	entryVals := map[*ssa.Phi]Val{}
	for _, p := range phis {
		entryVals[p] = fr.vals[p]
	}
	li.entrySt = in
	// select candidates
	var cands []autoInv
	if ex.P.autoInv != nil {
		all := fr.candidates(li)
		if keep, ok := ex.P.autoInv[fr.loopKey(li)]; ok {
			for _, c := range all {
				if keep[c.label] {
					cands = append(cands, c)
				}
			}
		} else if ex.houdini && !fr.inline {
			cands = all
		}
		if ex.houdini && !fr.inline && ex.P.houdiniPhase == 1 {
			// phase 1: only the cheap (quantifier-free) candidates
			var nc []autoInv
			for _, c := range cands {
				if !isFrameCand(c.label) {
					nc = append(nc, c)
				}
			}
			cands = nc
		}
		if !fr.inline && ex.P.houdiniPhase == 2 {
			// phase 2: survivors of phase 1 stay; frame candidates are added
			keep1 := ex.P.autoInv[fr.loopKey(li)+"#phase1"]
			var nc []autoInv
			for _, c := range all {
				if isFrameCand(c.label) {
					if ex.houdini || ex.P.autoInv[fr.loopKey(li)][c.label] {
						nc = append(nc, c)
					}
				} else if keep1[c.label] {
					nc = append(nc, c)
				}
			}
			cands = nc
		}
		if li.spec != nil {
			// bounds come from the declared invariants; keep only the frame-like candidates
			var fc []autoInv
			for _, c := range cands {
				if strings.HasPrefix(c.label, "frame ") || strings.HasPrefix(c.label, "keep ") || strings.HasSuffix(c.label, "fresh-or-nil") || strings.HasPrefix(c.label, "paraminv ") || strings.HasSuffix(c.label, " unchanged") || strings.HasPrefix(c.label, "rangeindex") {
					fc = append(fc, c)
				}
			}
			cands = fc
		}
	}
	li.candsUsed = cands
	// establish
	if li.spec != nil {
		env := fr.loopEnv(li, in, entryVals)
		for i, c := range li.spec.Invariants {
			lbl := c.Label
			if lbl == "" {
				lbl = fmt.Sprintf("%d", i)
			}
			fr.obligeClause(in, "inv-entry", fmt.Sprintf("loop%d/%s", li.ordinal, lbl), env, c.forPhase("entry"), nil)
		}
	}
	for _, c := range cands {
		fr.oblige(in, "auto-entry", fmt.Sprintf("loop%d/%s", li.ordinal, c.label), c.build(fr, in, entryVals, in), li.header.Instrs[0].Pos())
	}
	// havoc
	ev := &Event{keys: li.keys, all: li.keys["*"], label: fr.loopKey(li)}
	st := in.havoc(ev)
	na := ex.vc.fresh("alloc", SInt)
	ex.vc.assert(Ge(na, in.alloc))
	st.alloc = na
	st.reach = in.reach
	fresh := map[*ssa.Phi]Val{}
	for _, p := range phis {
		name := p.Comment
		if name == "" {
			name = p.Name()
		}
		v := ex.freshVal(st, "loop_"+name, p.Type())
		v.P = entryVals[p].P
		fr.vals[p] = v
		fresh[p] = v
	}
	li.phiFresh = fresh
	li.headSt = st
	// assume
	if li.spec != nil {
		env := fr.loopEnv(li, st, fresh)
		for _, c := range li.spec.Invariants {
			fr.assume(st, fr.safeEvalBool(env, c))
		}
		for _, d := range li.spec.Decreases {
			li.decEntry = append(li.decEntry, fr.loopEnv(li, st, fresh).evalInt(d.E))
		}
	}
	for _, c := range cands {
		fr.assume(st, c.build(fr, st, fresh, in))
	}
	return st
}

func (fr *Frame) safeEvalBool(env *SpecEnv, c Clause) (t Term) {
	defer func() {
		if r := recover(); r != nil {
			if se, ok := r.(specErr); ok {
				panic(unsupported{fmt.Sprintf("contract error at %s: %s (in %q)", c.Where, se.msg, c.Src)})
			}
			panic(r)
		}
	}()
	return env.evalBool(c.E)
}

func (fr *Frame) closeLoop(li *loopInfo, from *ssa.BasicBlock, cur *State) {
	ex := fr.ex
	h := li.header
	st := cur.clone()
	st.reach = fr.edgeCond(from, h, cur)
	// phi values along this edge
	idx := -1
	for i, p := range h.Preds {
		if p == from {
			idx = i
		}
	}
	over := map[*ssa.Phi]Val{}
	for _, p := range fr.phis(h) {
		over[p] = ex.val(fr, p.Edges[idx], cur)
	}
	if li.spec != nil {
		env := fr.loopEnv(li, st, over)
		env.headEnv = fr.loopEnv(li, li.headSt, li.phiFresh)
		for i, c := range li.spec.Invariants {
			lbl := c.Label
			if lbl == "" {
				lbl = fmt.Sprintf("%d", i)
			}
			fr.obligeClause(st, "inv-keep", fmt.Sprintf("loop%d/%s", li.ordinal, lbl), env, c.forPhase("keep"), nil)
		}
		for i, d := range li.spec.Decreases {
			now := fr.loopEnv(li, st, over).evalInt(d.E)
			fr.oblige(st, "decreases", fmt.Sprintf("loop%d/%d", li.ordinal, i), And(Lt(now, li.decEntry[i]), Ge(li.decEntry[i], Int(0))), from.Instrs[len(from.Instrs)-1].Pos())
		}
	}
	for _, c := range li.candsUsed {
		fr.oblige(st, "auto-keep", fmt.Sprintf("loop%d/%s", li.ordinal, c.label), c.build(fr, st, over, li.entrySt), from.Instrs[len(from.Instrs)-1].Pos())
	}
}

var _ = types.Typ


// exitLoop proves the declared invariants at an exit edge b->s that leaves the
// loop from the middle of its body, for the variable values at that point.
func (fr *Frame) exitLoop(li *loopInfo, b, s *ssa.BasicBlock, cur *State) {
	st := cur.clone()
	st.reach = fr.edgeCond(b, s, cur)
	env := fr.ex.newEnv(st, fr.entry, fr)
	c := fr.ex.P.contractFor(fr.fn)
	if c != nil {
		env.pkg = contractPkg(c.Func)
	} else if pk := fnPkg(fr.fn); pk != nil {
		env.pkg = shortPkg(pk.Path())
	}
	fr.bindTopVars(env)
	env.locals = func(name string) (Val, bool) {
		fr.includeOwnBlock = true
		defer func() { fr.includeOwnBlock = false }()
		return fr.localByNameAt(name, b, li, st)
	}
	env.headEnv = fr.loopEnv(li, li.headSt, li.phiFresh)
	for i, cl := range li.spec.ExitInv {
		lbl := cl.Label
		if lbl == "" {
			lbl = fmt.Sprintf("%d", i)
		}
		func() {
			// a clause that mentions a local not yet defined on this exit path does not apply to it
			defer func() {
				if r := recover(); r != nil {
					if u, ok := r.(unsupported); ok && strings.Contains(u.msg, "unknown identifier") {
						return
					}
					panic(r)
				}
			}()
			fr.obligeClause(st, "inv-exit", fmt.Sprintf("loop%d/%s", li.ordinal, lbl), env, cl.forPhase("keep"), nil)
		}()
	}
	// the facts hold on this edge; make them available to the successor
	// (obligeClause already asserted them under the edge condition)
}

// localByNameAt resolves a source variable at the end of block b inside loop li:
// the latest definition in b or its dominators; header phis stand for the
// value at the head of this iteration.
func (fr *Frame) localByNameAt(name string, b *ssa.BasicBlock, li *loopInfo, st *State) (Val, bool) {
	// latest DebugRef in blocks dominating b (including b) that lie inside the loop body
	var best ssa.Value
	var bestAddr bool
	bestDepth := -1
	for _, blk := range fr.fn.Blocks {
		if !blk.Dominates(b) {
			continue
		}
		depth := 0
		for d := blk; d != nil; d = d.Idom() {
			depth++
		}
		for _, in := range blk.Instrs {
			dr, ok := in.(*ssa.DebugRef)
			if !ok || dr.Object() == nil || dr.Object().Name() != name {
				continue
			}
			if _, isVar := dr.Object().(*types.Var); !isVar {
				continue
			}
			if depth >= bestDepth {
				best, bestAddr, bestDepth = dr.X, dr.IsAddr, depth
			}
		}
	}
	if best == nil {
		return fr.localByName(name, li.header, st, li.phiFresh)
	}
	v, ok := fr.vals[best]
	if !ok {
		if c, isC := best.(*ssa.Const); isC {
			v = fr.ex.constVal(c, st)
		} else {
			return Val{}, false
		}
	}
	if bestAddr {
		return fr.ex.load(st, fr.ex.ptrLoc(v), best.Type().(*types.Pointer).Elem()), true
	}
	return v, true
}


func isFrameCand(label string) bool {
	return strings.HasPrefix(label, "frame ") || strings.HasPrefix(label, "keep ")
}
