package main

import (
	"strings"
	"flag"
	"fmt"
	"os"
	"sort"
)

func main() {
	if len(os.Args) < 2 {
		fmt.Fprintln(os.Stderr, "usage: govc <verify|check> ...")
		os.Exit(2)
	}
	switch os.Args[1] {
	case "verify":
		cmdVerify(os.Args[2:])
	case "check":
		cmdCheck(os.Args[2:])
	default:
		if f, ok := extraCmds[os.Args[1]]; ok {
			f(os.Args[2:])
			return
		}
		fmt.Fprintln(os.Stderr, "unknown command")
		os.Exit(2)
	}
}

var extraCmds = map[string]func([]string){}

func cmdVerify(args []string) {
	fs := flag.NewFlagSet("verify", flag.ExitOnError)
	repo := fs.String("repo", "/repo", "repository")
	pat := fs.String("funcs", "", "regexp over function keys")
	timeout := fs.Int("timeout", 10, "solver timeout (s)")
	out := fs.String("out", "/verif/out/adhoc", "output dir")
	houd := fs.Bool("houdini", true, "infer loop invariants")
	verbose := fs.Bool("v", false, "verbose")
	model := fs.String("model", "", "print a model for the failing obligation whose name contains this string")
	pkgs := fs.String("pkgs", "./...", "package patterns")
	specs := fs.String("specs", "/verif/specs", "directory of trusted library specs")
	fs.Parse(args)
	P, err := loadProg(*repo, []string{*pkgs}, []string{*specs})
	if err != nil {
		fmt.Fprintln(os.Stderr, err)
		os.Exit(2)
	}
	ensureDir(*out)
	opts := &VerifyOpts{Timeout: *timeout, OutDir: *out, Houdini: *houd}
	fns := P.selectFuncs(*pat)
	tot, ok := 0, 0
	for _, fn := range fns {
		res := P.verifyFunc(fn, opts)
		if res.Unsupported != "" {
			fmt.Printf("%-60s OUTSIDE SUBSET: %s\n", res.Fn, res.Unsupported)
			continue
		}
		n, d := 0, 0
		for _, o := range res.Obls {
			n++
			if o.Res.Status == "unsat" {
				d++
			}
		}
		tot += n
		ok += d
		fmt.Printf("%-60s %d/%d  %.1fs cover=%s\n", res.Fn, d, n, res.Time, res.CoverRes)
		for _, o := range res.Obls {
			if o.Res.Status != "unsat" || *verbose {
				fmt.Printf("    %-8s %s  @%s (%s %.2fs)\n", o.Res.Status, o.Name, o.Pos, o.Res.Solver, o.Res.Time)
			}
		}
		if *model != "" {
			for _, o := range res.Obls {
				if o.Res.Status != "unsat" && strings.Contains(o.Name, *model) {
					dumpModel(o, *out)
				}
			}
		}
		if *verbose {
			for _, n := range res.Notes {
				fmt.Println("    note:", n)
			}
			sort.Strings(res.Unspec)
			for _, n := range res.Unspec {
				fmt.Println("    unspecified:", n)
			}
			for k, v := range res.AutoInv {
				fmt.Println("    auto-inv:", k, v)
			}
		}
	}
	fmt.Printf("TOTAL %d/%d\n", ok, tot)
}

func init() {
	extraCmds["modset"] = func(args []string) {
		P, err := loadProg("/repo", []string{"./..."}, []string{"/verif/specs"})
		if err != nil {
			fmt.Fprintln(os.Stderr, err)
			os.Exit(2)
		}
		for _, fn := range P.selectFuncs(args[0]) {
			var ks []string
			for k := range P.modset(fn) {
				ks = append(ks, k)
			}
			sort.Strings(ks)
			fmt.Println(funcKey(fn), ks)
		}
	}
}


// dumpModel prints the values of all scalar constants in a model of the
// negated obligation (debugging aid).
func dumpModel(o *Obligation, dir string) {
	var terms []string
	for name, sort := range o.vc.declared {
		if sort == SInt || sort == SBool {
			// only constants (functions are in declared too, with their result sort; skip known ones)
			if strings.HasPrefix(name, "slen") || strings.HasPrefix(name, "sat") || strings.HasPrefix(name, "errIs") || strings.HasPrefix(name, "impl$") || strings.HasPrefix(name, "uf_") || strings.HasPrefix(name, "ufb_") {
				continue
			}
			isFun := false
			for _, d := range o.vc.decls {
				if strings.HasPrefix(d, "(declare-fun "+name+" (") && !strings.HasPrefix(d, "(declare-fun "+name+" ()") {
					isFun = true
				}
			}
			if !isFun {
				terms = append(terms, name)
			}
		}
	}
	sort.Strings(terms)
	script := o.vc.query(o.Mark, nil, o.Goal, true)
	m, _ := getModel(script, dir, o.Name, terms, 20)
	fmt.Println("    model for", o.Name)
	var keys []string
	for k := range m {
		keys = append(keys, k)
	}
	sort.Strings(keys)
	for _, k := range keys {
		fmt.Printf("      %s = %s\n", k, m[k])
	}
}
