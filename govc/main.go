package main

import (
	"flag"
	"fmt"
	"os"
	"sort"
)

func main() {
	if len(os.Args) < 2 {
		fmt.Fprintln(os.Stderr, "usage: govc <verify|check> ...")
		os.Exit(2)
	}
	switch os.Args[1] {
	case "verify":
		cmdVerify(os.Args[2:])
	case "check":
		cmdCheck(os.Args[2:])
	default:
		if f, ok := extraCmds[os.Args[1]]; ok {
			f(os.Args[2:])
			return
		}
		fmt.Fprintln(os.Stderr, "unknown command")
		os.Exit(2)
	}
}

var extraCmds = map[string]func([]string){}

func cmdVerify(args []string) {
	fs := flag.NewFlagSet("verify", flag.ExitOnError)
	repo := fs.String("repo", "/repo", "repository")
	pat := fs.String("funcs", "", "regexp over function keys")
	timeout := fs.Int("timeout", 10, "solver timeout (s)")
	out := fs.String("out", "/verif/out/adhoc", "output dir")
	houd := fs.Bool("houdini", true, "infer loop invariants")
	verbose := fs.Bool("v", false, "verbose")
	pkgs := fs.String("pkgs", "./...", "package patterns")
	fs.Parse(args)
	P, err := loadProg(*repo, []string{*pkgs}, []string{"/verif/specs"})
	if err != nil {
		fmt.Fprintln(os.Stderr, err)
		os.Exit(2)
	}
	ensureDir(*out)
	opts := &VerifyOpts{Timeout: *timeout, OutDir: *out, Houdini: *houd}
	fns := P.selectFuncs(*pat)
	tot, ok := 0, 0
	for _, fn := range fns {
		res := P.verifyFunc(fn, opts)
		if res.Unsupported != "" {
			fmt.Printf("%-60s OUTSIDE SUBSET: %s\n", res.Fn, res.Unsupported)
			continue
		}
		n, d := 0, 0
		for _, o := range res.Obls {
			n++
			if o.Res.Status == "unsat" {
				d++
			}
		}
		tot += n
		ok += d
		fmt.Printf("%-60s %d/%d  %.1fs cover=%s\n", res.Fn, d, n, res.Time, res.CoverRes)
		for _, o := range res.Obls {
			if o.Res.Status != "unsat" || *verbose {
				fmt.Printf("    %-8s %s  @%s (%s %.2fs)\n", o.Res.Status, o.Name, o.Pos, o.Res.Solver, o.Res.Time)
			}
		}
		if *verbose {
			for _, n := range res.Notes {
				fmt.Println("    note:", n)
			}
			sort.Strings(res.Unspec)
			for _, n := range res.Unspec {
				fmt.Println("    unspecified:", n)
			}
			for k, v := range res.AutoInv {
				fmt.Println("    auto-inv:", k, v)
			}
		}
	}
	fmt.Printf("TOTAL %d/%d\n", ok, tot)
}

func init() {
	extraCmds["modset"] = func(args []string) {
		P, err := loadProg("/repo", []string{"./..."}, []string{"/verif/specs"})
		if err != nil {
			fmt.Fprintln(os.Stderr, err)
			os.Exit(2)
		}
		for _, fn := range P.selectFuncs(args[0]) {
			var ks []string
			for k := range P.modset(fn) {
				ks = append(ks, k)
			}
			sort.Strings(ks)
			fmt.Println(funcKey(fn), ks)
		}
	}
}
