package main

// Symbolic state: a DAG of nodes; heap versions are resolved lazily so that
// heaps first touched after a havoc/merge still get the right version.

import (
	"os"
	"fmt"
	"sort"
	"strings"
)

// HeapInfo is the static metadata of one heap (one SMT array or constant).
type HeapInfo struct {
	Name string
	Sort Sort
	Key  string // modset key: F:<struct>.<field> | A:<elem> | C:<type> | G:<name> | GH:<owner>.<name> | M:<maptype>
	Dim  int    // number of index terms (0 for globals, 1 for H/C/ghost, 2 for A/E)
	Leaf Leaf
}

type Event struct {
	id    int
	keys  map[string]bool // keys havocked; nil = everything
	all   bool
	frame func(h *HeapInfo, old, new Term) // optional constraint generator
	label string
}

func (e *Event) matches(h *HeapInfo) bool {
	if e.all {
		return !strings.HasPrefix(h.Key, "K:") // constants never change
	}
	return e.keys[h.Key]
}

type State struct {
	ex    *Exec
	H     map[string]Term
	kind  int // 0 entry, 1 havoc, 2 merge
	par   *State
	ev    *Event
	preds []*State
	conds []Term
	alloc Term
	reach Term
	// defer stack (persistent slice; never mutated in place)
	defers []*deferRec
	// locks held: name -> mode ("R"/"W"), static approximation on this path
	locks map[string]string
	// varEnv: latest value of named source variables (for spec evaluation)
}

type deferRec struct {
	cond Term
	run  func(st *State) *State // applies the deferred call
	desc string
}

func (st *State) clone() *State {
	n := *st
	n.H = make(map[string]Term, len(st.H))
	for k, v := range st.H {
		n.H[k] = v
	}
	if st.locks != nil {
		n.locks = map[string]string{}
		for k, v := range st.locks {
			n.locks[k] = v
		}
	}
	return &n
}

func (st *State) get(h *HeapInfo) Term {
	if t, ok := st.H[h.Name]; ok {
		return t
	}
	var t Term
	switch st.kind {
	case 0:
		t = st.ex.vc.declare(mangle(h.Name)+"!0", h.Sort)
		st.ex.heapTyping(h, t, st.alloc)
	case 1:
		old := st.par.get(h)
		if st.ev.matches(h) {
			t = st.ex.vc.declare(fmt.Sprintf("%s!e%d", mangle(h.Name), st.ev.id), h.Sort)
			st.ex.heapTyping(h, t, st.alloc)
			if st.ev.frame != nil {
				st.ev.frame(h, old, t)
			}
		} else {
			t = old
		}
	case 2:
		vs := make([]Term, len(st.preds))
		same := true
		for i, p := range st.preds {
			vs[i] = p.get(h)
			if vs[i].S != vs[0].S {
				same = false
			}
		}
		if same {
			t = vs[0]
		} else {
			r := vs[len(vs)-1]
			for i := len(vs) - 2; i >= 0; i-- {
				r = Ite(st.conds[i], vs[i], r)
			}
			t = st.ex.vc.fresh(h.Name+"!m", h.Sort)
			st.ex.vc.assert(Eq(t, r))
		}
	}
	st.H[h.Name] = t
	return t
}

func (st *State) set(h *HeapInfo, t Term) { st.H[h.Name] = t }

// havoc returns a new state in which all heaps matching the event are unknown.
func (st *State) havoc(ev *Event) *State {
	st.ex.evCounter++
	ev.id = st.ex.evCounter
	if os.Getenv("GOVC_DEBUG") != "" {
		fmt.Fprintf(os.Stderr, "  event e%d: %s all=%v nkeys=%d\n", ev.id, ev.label, ev.all, len(ev.keys))
	}
	n := &State{ex: st.ex, H: map[string]Term{}, kind: 1, par: st, ev: ev, alloc: st.alloc, reach: st.reach, defers: st.defers}
	if st.locks != nil {
		n.locks = map[string]string{}
		for k, v := range st.locks {
			n.locks[k] = v
		}
	}
	return n
}

// mergeStates joins predecessor states under their edge conditions.
func mergeStates(ex *Exec, preds []*State, conds []Term) *State {
	if len(preds) == 1 {
		n := preds[0].clone()
		n.reach = conds[0]
		return n
	}
	n := &State{ex: ex, H: map[string]Term{}, kind: 2, preds: preds, conds: conds}
	// reach
	n.reach = ex.vc.define("reach", Or(conds...))
	// alloc
	same := true
	for _, p := range preds {
		if p.alloc.S != preds[0].alloc.S {
			same = false
		}
	}
	if same {
		n.alloc = preds[0].alloc
	} else {
		r := preds[len(preds)-1].alloc
		for i := len(preds) - 2; i >= 0; i-- {
			r = Ite(conds[i], preds[i].alloc, r)
		}
		n.alloc = ex.vc.define("alloc", r)
	}
	// defers: take the longest; entries carry their own conditions.
	for _, p := range preds {
		if len(p.defers) > len(n.defers) {
			n.defers = p.defers
		}
	}
	// locks: intersection with equal mode
	for i, p := range preds {
		if i == 0 {
			if p.locks != nil {
				n.locks = map[string]string{}
				for k, v := range p.locks {
					n.locks[k] = v
				}
			}
			continue
		}
		for k, v := range n.locks {
			if p.locks[k] != v {
				delete(n.locks, k)
			}
		}
	}
	// eagerly merge explicitly known heaps (keeps lookups cheap and deterministic)
	names := map[string]bool{}
	for _, p := range preds {
		for k := range p.H {
			names[k] = true
		}
	}
	var sorted []string
	for k := range names {
		sorted = append(sorted, k)
	}
	sort.Strings(sorted)
	for _, k := range sorted {
		n.get(ex.heaps[k])
	}
	return n
}
