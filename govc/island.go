package main

// Bounded stand-ins ("islands"): exhaustive execution of real functions over a
// stated finite domain, injected with go test -overlay. Reported under
// coverage.bounded, never counted as proved.

import (
	"bytes"
	"encoding/json"
	"fmt"
	"os"
	"os/exec"
	"path/filepath"
	"strings"
	"time"
)

type islandOut struct {
	Evaluations int      `json:"evaluations"`
	Distinct    int      `json:"distinct"`
	Failures    []string `json:"failures"`
	Samples     []string `json:"samples"`
}

// runIsland runs the test file (from /verif/harness) inside repo/pkgDir.
func runIsland(rep *Report, repo, name, pkgDir, testFile, runRe, bound string, timeoutS int, env ...string) {
	tmp, err := os.MkdirTemp("", "island")
	if err != nil {
		rep.failClosed("island "+name, err.Error())
		return
	}
	defer os.RemoveAll(tmp)
	src := filepath.Join(verifDir, "harness", testFile)
	dst := filepath.Join(repo, pkgDir, "zz_verif_"+testFile)
	ov := map[string]map[string]string{"Replace": {dst: src}}
	data, _ := json.Marshal(ov)
	ovf := filepath.Join(tmp, "ov.json")
	os.WriteFile(ovf, data, 0o644)
	cmd := exec.Command("go", "test", "-overlay", ovf, "-vet=off", "-count=1", "-timeout", fmt.Sprintf("%ds", timeoutS), "-run", runRe, "-v", ".")
	cmd.Dir = filepath.Join(repo, pkgDir)
	cmd.Env = append(os.Environ(), "GOFLAGS=-mod=mod", "GOPROXY=off", "GOSUMDB=off", "GOTOOLCHAIN=local")
	cmd.Env = append(cmd.Env, env...)
	var out bytes.Buffer
	cmd.Stdout = &out
	cmd.Stderr = &out
	start := time.Now()
	runErr := cmd.Run()
	_ = start
	var io islandOut
	found := false
	for _, l := range strings.Split(out.String(), "\n") {
		if i := strings.Index(l, "ISLAND "); i >= 0 {
			if json.Unmarshal([]byte(l[i+7:]), &io) == nil {
				found = true
			}
		}
	}
	b := Bounded{Name: name, Bound: bound, Evaluations: io.Evaluations, Distinct: io.Distinct}
	if !found {
		b.Result = "harness did not complete"
		rep.Bounded = append(rep.Bounded, b)
		txt := out.String()
		if len(txt) > 3000 {
			txt = txt[len(txt)-3000:]
		}
		path := rep.writeReplay("island-"+name, map[string]interface{}{"obligation": "island[" + name + "]", "output": txt})
		rep.Violations = append(rep.Violations, fmt.Sprintf("VIOLATION property=%s replay=%s no-failing-input-found", rep.Prop.ID, path))
		return
	}
	// failures of the form "<key> :: <text>" may be listed as known findings
	// (obligation island[<name>]/<key>); they are printed as KNOWN-FINDING and do not fail the check
	if len(io.Failures) > 0 {
		known := map[string]Finding{}
		for _, f := range loadFindings() {
			if f.Kind == "finding" && f.Property == rep.Prop.ID {
				known[f.Obligation] = f
			}
		}
		var rest []string
		seen := map[string]bool{}
		for _, fl := range io.Failures {
			key := fl
			if i := strings.Index(fl, " :: "); i >= 0 {
				key = fl[:i]
			}
			ob := "island[" + name + "]/" + key
			if kf, ok := known[ob]; ok {
				if !seen[ob] {
					seen[ob] = true
					rep.Known = append(rep.Known, fmt.Sprintf("KNOWN-FINDING: property=%s %s (%s)", rep.Prop.ID, kf.Text, ob))
				}
				continue
			}
			rest = append(rest, fl)
		}
		io.Failures = rest
		if len(rest) == 0 {
			runErr = nil
		}
	}
	if len(io.Failures) > 0 || runErr != nil {
		b.Result = fmt.Sprintf("%d failing cases", len(io.Failures))
		b.Samples = io.Failures
		rep.Bounded = append(rep.Bounded, b)
		path := rep.writeReplay("island-"+name, map[string]interface{}{"obligation": "island[" + name + "]", "failing_inputs": io.Failures,
			"replay": fmt.Sprintf("/verif/tools/overlay_test.sh %s %s /verif/harness/%s -run %s -v", repo, pkgDir, testFile, runRe)})
		rep.Violations = append(rep.Violations, fmt.Sprintf("VIOLATION property=%s replay=%s", rep.Prop.ID, path))
		return
	}
	b.Result = "no failing case"
	b.Samples = io.Samples
	rep.Bounded = append(rep.Bounded, b)
}
