package main

// Natively modelled library functions (the trusted base that needs engine
// support), channels, select, range, constant globals.

import (
	"fmt"
	"go/ast"
	"go/constant"
	"go/token"
	"go/types"
	"strings"

	"golang.org/x/tools/go/ssa"
)

type externHandler func(fr *Frame, cc *ssa.CallCommon, args []Val, st *State, instr ssa.Instruction) (*State, []Val)

var externHandlers map[string]externHandler

var errType = types.Universe.Lookup("error").Type()

func init() {
	noop := func(fr *Frame, cc *ssa.CallCommon, args []Val, st *State, instr ssa.Instruction) (*State, []Val) {
		return st, nil
	}
	externHandlers = map[string]externHandler{
		"(*sync.Mutex).Lock":      lockHandler("W", true),
		"(*sync.Mutex).Unlock":    lockHandler("W", false),
		"(*sync.RWMutex).Lock":    lockHandler("W", true),
		"(*sync.RWMutex).Unlock":  lockHandler("W", false),
		"(*sync.RWMutex).RLock":   lockHandler("R", true),
		"(*sync.RWMutex).RUnlock": lockHandler("R", false),
		"log.Printf":              noop,
		"log.Println":             noop,
		"log.Print":               noop,
		"fmt.Errorf":              hErrorf,
		"errors.New":              hErrorsNew,
		"errors.Is":               hErrorsIs,
		"errors.As":               hErrorsAs,
		"fmt.Sprintf":             hSprintf,
		"fmt.Sprint":              hSprintf,
		"fmt.Sprintln":            hSprintf,
		"strconv.Itoa":            hFreshString,
		"strconv.Quote":           hFreshString,
		"strings.ToLower":         hSameLenString,
		"strings.ToUpper":         hFreshString,
		"strings.TrimSpace":       hShorterString,
		"strings.TrimLeft":        hShorterString,
		"strings.TrimRight":       hShorterString,
		"strings.TrimPrefix":      hShorterString,
		"strings.TrimSuffix":      hShorterString,
		"strings.Trim":            hShorterString,
		"strconv.Atoi":            hAtoi,
		"sync/atomic.AddUint64":   hAtomicAdd(64),
		"sync/atomic.AddUint32":   hAtomicAdd(32),
	}
	for _, bo := range []string{"bigEndian", "littleEndian"} {
		for _, m := range []string{"Uint16", "Uint32", "Uint64", "PutUint16", "PutUint32", "PutUint64"} {
			bo, m := bo, m
			externHandlers["(encoding/binary."+bo+")."+m] = func(fr *Frame, cc *ssa.CallCommon, args []Val, st *State, instr ssa.Instruction) (*State, []Val) {
				fr.ex.trusted["extern encoding/binary."+bo+"."+m] = true
				recv := Val{L: []Term{Int(int64(fr.ex.byteOrderTag(bo)))}}
				st2, res, _ := fr.byteOrder(m, recv, args[1:], st, instr)
				return st2, res
			}
		}
	}
}

func hFreshString(fr *Frame, cc *ssa.CallCommon, args []Val, st *State, instr ssa.Instruction) (*State, []Val) {
	return st, []Val{{T: types.Typ[types.String], L: []Term{fr.ex.freshStr(st, "s")}}}
}

func hSameLenString(fr *Frame, cc *ssa.CallCommon, args []Val, st *State, instr ssa.Instruction) (*State, []Val) {
	r := fr.ex.freshStr(st, "s")
	fr.ex.vc.assert(Eq(slen(r), slen(args[0].one())))
	return st, []Val{{T: types.Typ[types.String], L: []Term{r}}}
}

func hShorterString(fr *Frame, cc *ssa.CallCommon, args []Val, st *State, instr ssa.Instruction) (*State, []Val) {
	r := fr.ex.freshStr(st, "s")
	fr.ex.vc.assert(Le(slen(r), slen(args[0].one())))
	return st, []Val{{T: types.Typ[types.String], L: []Term{r}}}
}

func hSprintf(fr *Frame, cc *ssa.CallCommon, args []Val, st *State, instr ssa.Instruction) (*State, []Val) {
	// formatting calls String()/Error() methods of the arguments; those are
	// assumed not to panic (listed in the trusted base).
	r := fr.ex.freshStr(st, "fmt")
	// fmt.Sprintf("%0"+strconv.Itoa(n)+"s", x): zero/space padded to width n, so
	// the result has at least n bytes (n >= 0)
	if len(cc.Args) > 0 {
		if w, ok := padWidth(cc.Args[0]); ok {
			n := fr.ex.val(fr, w, st).one()
			fr.ex.vc.assert(Implies(Ge(n, Int(0)), Ge(slen(r), n)))
			fr.ex.trusted["extern fmt.Sprintf(\"%0Ns\", x) yields at least N bytes"] = true
		}
	}
	return st, []Val{{T: types.Typ[types.String], L: []Term{r}}}
}

// padWidth recognises the format "%0" + strconv.Itoa(n) + "s".
func padWidth(v ssa.Value) (ssa.Value, bool) {
	outer, ok := v.(*ssa.BinOp)
	if !ok || outer.Op != token.ADD {
		return nil, false
	}
	if c, ok := outer.Y.(*ssa.Const); !ok || c.Value == nil || constantString(c) != "s" {
		return nil, false
	}
	inner, ok := outer.X.(*ssa.BinOp)
	if !ok || inner.Op != token.ADD {
		return nil, false
	}
	if c, ok := inner.X.(*ssa.Const); !ok || c.Value == nil || constantString(c) != "%0" {
		return nil, false
	}
	call, ok := inner.Y.(*ssa.Call)
	if !ok {
		return nil, false
	}
	if f := call.Call.StaticCallee(); f == nil || funcKey(f) != "strconv.Itoa" {
		return nil, false
	}
	return call.Call.Args[0], true
}

func (fr *Frame) freshErrOrNil(st *State, base string) Val {
	ex := fr.ex
	ok := ex.vc.fresh(base+"_ok", SBool)
	e := ex.newError(st, base+"_err", nil, ex.P.tagOf(sentinelType{}))
	return Val{T: errType, L: []Term{Ite(ok, Int(0), e.L[0]), Ite(ok, Int(0), e.L[1])}}
}

func hAtoi(fr *Frame, cc *ssa.CallCommon, args []Val, st *State, instr ssa.Instruction) (*State, []Val) {
	ex := fr.ex
	v := ex.freshVal(st, "atoi", types.Typ[types.Int])
	e := fr.freshErrOrNil(st, "atoi")
	// on error the result is 0
	ex.vc.assert(Implies(Ne(e.L[0], Int(0)), Eq(v.one(), Int(0))))
	// Atoi succeeds only on non-empty input
	ex.vc.assert(Implies(Eq(e.L[0], Int(0)), Gt(slen(args[0].one()), Int(0))))
	return st, []Val{v, e}
}

func hErrorsNew(fr *Frame, cc *ssa.CallCommon, args []Val, st *State, instr ssa.Instruction) (*State, []Val) {
	return st, []Val{fr.ex.newError(st, "errnew", nil, fr.ex.P.tagOf(sentinelType{}))}
}

func hErrorsIs(fr *Frame, cc *ssa.CallCommon, args []Val, st *State, instr ssa.Instruction) (*State, []Val) {
	ex := fr.ex
	e, t := args[0], args[1]
	same := And(Ne(e.L[0], Int(0)), Eq(e.L[0], t.L[0]), Eq(e.L[1], t.L[1]))
	r := ex.vc.define("errorsIs", And(Ne(e.L[0], Int(0)), Or(same, errIs(e.L[1], t.L[1]))))
	return st, []Val{{T: types.Typ[types.Bool], L: []Term{r}}}
}

func hErrorsAs(fr *Frame, cc *ssa.CallCommon, args []Val, st *State, instr ssa.Instruction) (*State, []Val) {
	ex := fr.ex
	ok := ex.vc.fresh("errorsAs", SBool)
	ex.vc.assert(Implies(Eq(args[0].L[0], Int(0)), Not(ok)))
	// target: pointer stored inside an interface; the pointee cell receives some value
	// when ok. We model the cell as havocked (any value of its type, non-nil if ok).
	tv := args[1]
	// args[1] is interface{} holding a *T; T is found from the MakeInterface operand
	if mi, isMI := cc.Args[1].(*ssa.MakeInterface); isMI {
		pt := mi.X.Type()
		el := under(pt).(*types.Pointer).Elem()
		cell := ex.val(fr, mi.X, st)
		loc := ex.ptrLoc(cell)
		nv := ex.freshVal(st, "as_target", el)
		old := ex.load(st, loc, el)
		var ls []Term
		for i := range nv.L {
			ls = append(ls, Ite(ok, nv.L[i], old.L[i]))
		}
		if isPointer(el) {
			ex.vc.assert(Implies(ok, Ne(nv.L[0], Int(0))))
		}
		ex.store(st, loc, el, Val{T: el, L: ls})
	} else {
		_ = tv
		unsup("errors.As with non-literal target")
	}
	return st, []Val{{T: types.Typ[types.Bool], L: []Term{ok}}}
}

// hErrorf: fresh error; wraps exactly the %w arguments.
func hErrorf(fr *Frame, cc *ssa.CallCommon, args []Val, st *State, instr ssa.Instruction) (*State, []Val) {
	ex := fr.ex
	c, ok := cc.Args[0].(*ssa.Const)
	if !ok {
		unsup("fmt.Errorf with non-constant format")
	}
	format := constantString(c)
	var wraps []Term
	argi := 0
	va := args[1]
	et := under(cc.Args[1].Type()).(*types.Slice).Elem()
	for i := 0; i < len(format); i++ {
		if format[i] != '%' {
			continue
		}
		i++
		for i < len(format) && strings.ContainsRune("+-# 0123456789.*[]", rune(format[i])) {
			i++
		}
		if i >= len(format) {
			break
		}
		if format[i] == '%' {
			continue
		}
		if format[i] == 'w' {
			loc := Loc{Fam: "A", Root: typeName(et), Idx: []Term{va.L[0], Add(va.L[1], Int(int64(argi)))}}
			elem := ex.load(st, loc, et)
			wraps = append(wraps, elem.L[1])
		}
		argi++
	}
	return st, []Val{ex.newError(st, "errorf", wraps, ex.P.tagOf(sentinelType{}))}
}

// lock bookkeeping: static per-path approximation, keyed by the source label
// of the mutex expression.
func lockHandler(mode string, acquire bool) externHandler {
	return func(fr *Frame, cc *ssa.CallCommon, args []Val, st *State, instr ssa.Instruction) (*State, []Val) {
		name := exprLabel(fr, cc.Args[0])
		if fr.ex.P.lockHook != nil {
			fr.ex.P.lockHook(fr, st, name, mode, acquire, instr)
		}
		if st.locks == nil {
			st.locks = map[string]string{}
		}
		if acquire {
			st.locks[name] = mode
		} else {
			delete(st.locks, name)
		}
		return st, nil
	}
}

// ---------------------------------------------------------------------------
// interface methods modelled natively

func (fr *Frame) nativeInvoke(cc *ssa.CallCommon, recv Val, args []Val, st *State, instr ssa.Instruction) (*State, []Val, bool) {
	ex := fr.ex
	itn := typeName(cc.Value.Type())
	m := cc.Method.Name()
	switch {
	case itn == "encoding/binary.ByteOrder":
		ex.trusted["extern encoding/binary.ByteOrder."+m] = true
		return fr.byteOrder(m, recv, args, st, instr)
	case m == "Error" && cc.Method.Type().(*types.Signature).Params().Len() == 0 && itn == "error":
		ex.trusted["extern error.Error (no panic, no effect)"] = true
		return st, []Val{{T: types.Typ[types.String], L: []Term{ex.freshStr(st, "errstr")}}}, true
	case m == "String" && itn == "fmt.Stringer":
		ex.trusted["extern fmt.Stringer.String (no panic, no effect)"] = true
		return st, []Val{{T: types.Typ[types.String], L: []Term{ex.freshStr(st, "str")}}}, true
	}
	return nil, nil, false
}

func (fr *Frame) byteOrder(m string, recv Val, args []Val, st *State, instr ssa.Instruction) (*State, []Val, bool) {
	ex := fr.ex
	leTag := ex.byteOrderTag("littleEndian")
	beTag := ex.byteOrderTag("bigEndian")
	isLE := Eq(recv.L[0], Int(int64(leTag)))
	isBE := Eq(recv.L[0], Int(int64(beTag)))
	var n int
	switch m {
	case "Uint16", "PutUint16":
		n = 2
	case "Uint32", "PutUint32":
		n = 4
	case "Uint64", "PutUint64":
		n = 8
	default:
		return nil, nil, false
	}
	b := args[0]
	fr.oblige(st, "pre", fmt.Sprintf("binary.%s/len>=%d", m, n), Ge(b.L[2], Int(int64(n))), instr.Pos())
	h := ex.leafHeaps("A", "byte", "", types.Typ[types.Uint8], "")[0]
	if !strings.HasPrefix(m, "Put") {
		row := Select(st.get(h), b.L[0])
		var le, be []Term
		for i := 0; i < n; i++ {
			bi := Select(row, Add(b.L[1], Int(int64(i))))
			ex.fact(And(Le(Int(0), bi), Le(bi, Int(255))))
			le = append(le, Mul(bi, pow2(8*i)))
			be = append(be, Mul(bi, pow2(8*(n-1-i))))
		}
		var rt types.Type
		switch n {
		case 2:
			rt = types.Typ[types.Uint16]
		case 4:
			rt = types.Typ[types.Uint32]
		default:
			rt = types.Typ[types.Uint64]
		}
		other := ex.freshVal(st, "bo", rt)
		r := ex.vc.define("bo_"+m, Ite(isLE, app(SInt, "+", le...), Ite(isBE, app(SInt, "+", be...), other.one())))
		return st, []Val{{T: rt, L: []Term{r}}}, true
	}
	v := args[1].one()
	row := Select(st.get(h), b.L[0])
	leRow, beRow := row, row
	for i := 0; i < n; i++ {
		byteLE := Mod(Div(v, pow2(8*i)), Int(256))
		byteBE := Mod(Div(v, pow2(8*(n-1-i))), Int(256))
		leRow = Store(leRow, Add(b.L[1], Int(int64(i))), byteLE)
		beRow = Store(beRow, Add(b.L[1], Int(int64(i))), byteBE)
	}
	other := ex.vc.fresh("bo_row", SArr)
	k := Term{"bi", SInt}
	ex.vc.assert(Forall([]string{"bi"}, And(Implies(Or(Lt(k, b.L[1]), Ge(k, Add(b.L[1], Int(int64(n))))), Eq(Select(other, k), Select(row, k))), Le(Int(0), Select(other, k)), Le(Select(other, k), Int(255))), Select(other, k)))
	nrow := Ite(isLE, leRow, Ite(isBE, beRow, other))
	st.set(h, ex.vc.define(h.Name, Store(st.get(h), b.L[0], nrow)))
	return st, nil, true
}

func (ex *Exec) byteOrderTag(name string) int {
	// find encoding/binary.<name>
	for _, p := range allPackages(ex.P.pkgs) {
		if p.PkgPath == "encoding/binary" {
			if o := p.Types.Scope().Lookup(name); o != nil {
				return ex.P.tagOf(o.Type())
			}
		}
	}
	return ex.P.tagOf(sentinelType{}) + 100000
}

// ---------------------------------------------------------------------------
// channels

func (fr *Frame) doSend(x *ssa.Send, st *State) *State {
	ex := fr.ex
	c := ex.val(fr, x.Chan, st).one()
	v := ex.val(fr, x.X, st)
	fr.checkEscape(v, "channel send")
	h := ex.chanHeap("closed", SBool)
	fr.oblige(st, "sendclosed", exprLabel(fr, x.Chan), Not(Select(st.get(h), c)), x.Pos())
	if ex.P.sendHook != nil {
		ex.P.sendHook(fr, st, x, v)
	}
	if cls, ts := fr.chanInvTerms(x.Chan, v, st); len(ts) > 0 {
		for i, t := range ts {
			lbl := cls[i].Label
			if lbl == "" {
				lbl = fmt.Sprintf("%d", i)
			}
			fr.oblige(st, "chaninv", chanFieldKey(x.Chan)+"/"+lbl, t, x.Pos())
		}
	}
	if c := ex.P.contractFor(fr.fn); c != nil && len(c.OnSend) > 0 && !fr.inline {
		env := ex.newEnv(st, fr.entry, fr)
		env.pkg = contractPkg(c.Func)
		fr.bindTopVars(env)
		if c.ThisAlias && len(fr.fn.Params) > 0 {
			env.vars["this"] = fr.vals[fr.fn.Params[0]]
		}
		env.vars["sent"] = v
		env.vars["sentch"] = ex.val(fr, x.Chan, st)
		for i, cl := range c.OnSend {
			lbl := cl.Label
			if lbl == "" {
				lbl = fmt.Sprintf("%d", i)
			}
			fr.obligeClause(st, "onsend", lbl, env, cl, nil)
		}
	}
	if ex.P.blockHook != nil {
		ex.P.blockHook(fr, st, "send "+exprLabel(fr, x.Chan), x)
	}
	return st
}

// chanFieldKey names the struct field a channel value was loaded from ("" if unknown).
func chanFieldKey(v ssa.Value) string {
	u, ok := v.(*ssa.UnOp)
	if !ok {
		return ""
	}
	fa, ok := u.X.(*ssa.FieldAddr)
	if !ok {
		return ""
	}
	pt, ok := under(fa.X.Type()).(*types.Pointer)
	if !ok {
		return ""
	}
	st, ok := under(pt.Elem()).(*types.Struct)
	if !ok {
		return ""
	}
	return typeName(pt.Elem()) + "." + st.Field(fa.Field).Name()
}

// chanInvTerms evaluates the channel invariants of ch for element v.
func (fr *Frame) chanInvTerms(ch ssa.Value, v Val, st *State) ([]Clause, []Term) {
	ex := fr.ex
	key := chanFieldKey(ch)
	cls := ex.P.db.ChanInv[key]
	if key == "" || len(cls) == 0 {
		return nil, nil
	}
	env := ex.newEnv(st, st, fr)
	env.pkg = ex.P.db.ChanInvPkg[key]
	env.vars["v"] = v
	var ts []Term
	for _, c := range cls {
		ts = append(ts, safeEval(env, c))
	}
	return cls, ts
}

func (fr *Frame) doRecv(x *ssa.UnOp, st *State) *State {
	ex := fr.ex
	et := under(x.X.Type()).(*types.Chan).Elem()
	v := ex.freshVal(st, "recv", et)
	if _, ts := fr.chanInvTerms(x.X, v, st); len(ts) > 0 {
		c := ex.val(fr, x.X, st).one()
		closed := Select(st.get(ex.chanHeap("closed", SBool)), c)
		ex.trusted["channel invariant of "+chanFieldKey(x.X)+" assumed at receives (checked at every send in the verified functions)"] = true
		for _, t := range ts {
			ex.vc.assert(Implies(st.reach, Or(closed, t)))
		}
	}
	if ex.P.blockHook != nil {
		ex.P.blockHook(fr, st, "recv "+exprLabel(fr, x.X), x)
	}
	if x.CommaOk {
		ok := ex.vc.fresh("recvok", SBool)
		// closed and drained channel yields zero value
		var ls []Term
		for _, l := range v.L {
			var z Term
			if l.Sort == SBool {
				z = False
			} else {
				z = Int(0)
			}
			ls = append(ls, Ite(ok, l, z))
		}
		fr.vals[x] = Val{T: x.Type(), L: append(ls, ok)}
		return st
	}
	fr.vals[x] = v
	return st
}

func (fr *Frame) doSelect(x *ssa.Select, st *State) *State {
	ex := fr.ex
	n := len(x.States)
	idx := ex.vc.fresh("selidx", SInt)
	if x.Blocking {
		ex.vc.assert(And(Ge(idx, Int(0)), Lt(idx, Int(int64(n)))))
		if ex.P.blockHook != nil {
			ex.P.blockHook(fr, st, "select", x)
		}
	} else {
		ex.vc.assert(And(Ge(idx, Int(-1)), Lt(idx, Int(int64(n)))))
	}
	if ex.P.selectHook != nil {
		ex.P.selectHook(fr, st, x, idx)
	}
	res := Val{T: x.Type()}
	res.L = append(res.L, idx)
	res.L = append(res.L, ex.vc.fresh("selok", SBool))
	for _, s := range x.States {
		if s.Dir == types.RecvOnly {
			et := under(s.Chan.Type()).(*types.Chan).Elem()
			v := ex.freshVal(st, "selrecv", et)
			if _, ts := fr.chanInvTerms(s.Chan, v, st); len(ts) > 0 {
				c := ex.val(fr, s.Chan, st).one()
				closed := Select(st.get(ex.chanHeap("closed", SBool)), c)
				ex.trusted["channel invariant of "+chanFieldKey(s.Chan)+" assumed at receives (checked at every send in the verified functions)"] = true
				for _, t := range ts {
					ex.vc.assert(Implies(st.reach, Or(closed, t)))
				}
			}
			res.L = append(res.L, v.L...)
		} else {
			c := ex.val(fr, s.Chan, st).one()
			h := ex.chanHeap("closed", SBool)
			_ = c
			_ = h
		}
	}
	fr.vals[x] = res
	return st
}

// ---------------------------------------------------------------------------
// range over maps and strings

func (fr *Frame) doRange(x *ssa.Range, st *State) {
	xv := fr.ex.val(fr, x.X, st)
	rs := &rangeState{x: xv}
	if isString(x.X.Type()) {
		rs.kind = "string"
	} else {
		rs.kind = "map"
	}
	fr.rangeIt[x] = rs
	fr.vals[x] = Val{T: x.Type(), L: nil}
}

func (fr *Frame) doNext(x *ssa.Next, st *State) {
	ex := fr.ex
	rs := fr.rangeIt[x.Iter]
	if rs == nil {
		unsup("Next without Range")
	}
	ok := ex.vc.fresh("nextok", SBool)
	tt := x.Type().(*types.Tuple)
	res := Val{T: x.Type(), L: []Term{ok}}
	if rs.kind == "string" {
		i := ex.vc.fresh("ri", SInt)
		r := ex.vc.fresh("rune", SInt)
		ex.vc.assert(Implies(ok, And(Le(Int(0), i), Lt(i, slen(rs.x.one())))))
		ex.vc.assert(And(Le(Int(0), r), Le(r, Int(0x10FFFF))))
		ex.vc.assert(Implies(And(ok, Lt(sat(rs.x.one(), i), Int(128))), Eq(r, sat(rs.x.one(), i))))
		ex.fact(inRange(i, types.Typ[types.Int]))
		res.L = append(res.L, i, r)
		fr.vals[x] = res
		return
	}
	mt := under(rs.x.T).(*types.Map)
	mtn := typeName(rs.x.T)
	m := rs.x.one()
	if cm, isC := ex.constMaps[m.S]; isC {
		k := ex.freshVal(st, "rk", mt.Key())
		var in []Term
		val := Int(0)
		for i := len(cm.keys) - 1; i >= 0; i-- {
			in = append(in, Eq(k.one(), cm.keys[i]))
			val = Ite(Eq(k.one(), cm.keys[i]), cm.vals[i], val)
		}
		ex.vc.assert(Implies(ok, Or(in...)))
		if !isInvalid(tt.At(1).Type()) {
			res.L = append(res.L, k.L...)
		}
		if !isInvalid(tt.At(2).Type()) {
			res.L = append(res.L, ex.vc.define("cmval", val))
		}
		if ex.P.rangeHook != nil {
			ex.P.rangeHook(fr, st, x, rs, ok, k)
		}
		fr.vals[x] = res
		return
	}
	// key
	var kv Val
	if _, invalid := tt.At(1).Type().(*types.Basic); invalid && tt.At(1).Type().(*types.Basic).Kind() == types.Invalid {
		kv = Val{}
	}
	keyT := mt.Key()
	k := ex.freshVal(st, "rk", keyT)
	has := Select(Select(st.get(ex.mapHeap(mtn, "has", SBool)), m), fr.mapKey(k))
	ex.vc.assert(Implies(ok, And(Ne(m, Int(0)), has)))
	_ = kv
	if isInvalid(tt.At(1).Type()) {
		// key not used: no leaves
	} else {
		res.L = append(res.L, k.L...)
	}
	if !isInvalid(tt.At(2).Type()) {
		for _, l := range shape(mt.Elem()) {
			h := ex.heapInfo("M", mtn, "val"+l.Suffix, l, "M:"+mtn, 2)
			res.L = append(res.L, Select(Select(st.get(h), m), fr.mapKey(k)))
		}
	}
	if ex.P.rangeHook != nil {
		ex.P.rangeHook(fr, st, x, rs, ok, k)
	}
	fr.vals[x] = res
}

func isInvalid(t types.Type) bool {
	b, ok := t.(*types.Basic)
	return ok && b.Kind() == types.Invalid
}

// ---------------------------------------------------------------------------
// constant globals: literal initialisers read from the AST on every run

type gInit struct {
	expr ast.Expr
	info *types.Info
	pkg  *types.Package
}

func (P *Prog) globalInit(name string) (*gInit, bool) {
	if P.ginit == nil {
		P.ginit = map[string]*gInit{}
		for _, p := range allPackages(P.pkgs) {
			if !strings.HasPrefix(p.PkgPath, modulePath) {
				continue
			}
			for _, f := range p.Syntax {
				for _, d := range f.Decls {
					gd, ok := d.(*ast.GenDecl)
					if !ok || gd.Tok != token.VAR {
						continue
					}
					for _, s := range gd.Specs {
						vs := s.(*ast.ValueSpec)
						if len(vs.Values) != len(vs.Names) {
							continue
						}
						for i, n := range vs.Names {
							P.ginit[shortPkg(p.PkgPath)+"."+n.Name] = &gInit{vs.Values[i], p.TypesInfo, p.Types}
						}
					}
				}
			}
		}
	}
	g, ok := P.ginit[name]
	return g, ok
}

// materialise builds the symbolic value of a literal initialiser.
func (ex *Exec) materialise(g *gInit, t types.Type, st *State) Val {
	e := ast.Unparen(g.expr)
	if tv, ok := g.info.Types[e]; ok && tv.Value != nil {
		switch tv.Value.Kind() {
		case constant.Int:
			return Val{T: t, L: []Term{IntS(tv.Value.ExactString())}}
		case constant.Bool:
			if constant.BoolVal(tv.Value) {
				return Val{T: t, L: []Term{True}}
			}
			return Val{T: t, L: []Term{False}}
		case constant.String:
			return Val{T: t, L: []Term{ex.strConst(constant.StringVal(tv.Value))}}
		}
	}
	switch x := e.(type) {
	case *ast.SelectorExpr:
		// binary.LittleEndian / binary.BigEndian as interface value
		if obj, ok := g.info.Uses[x.Sel].(*types.Var); ok && obj.Pkg() != nil && obj.Pkg().Path() == "encoding/binary" && isIface(t) {
			tag := ex.P.tagOf(obj.Type())
			return Val{T: t, L: []Term{Int(int64(tag)), Int(int64(-500 - tag))}}
		}
	case *ast.CompositeLit:
		if mt, ok := under(t).(*types.Map); ok {
			return ex.materialiseMap(g, x, t, mt, st)
		}
		if sl, ok := under(t).(*types.Slice); ok {
			return ex.materialiseSlice(g, x, t, sl, st)
		}
	}
	// unknown initialiser: unconstrained but fixed value
	name := "ginit!" + mangle(fmt.Sprint(g.pkg.Path(), "/", ex.P.fset.Position(g.expr.Pos()).Line))
	v := Val{T: t}
	for _, l := range shape(t) {
		v.L = append(v.L, ex.vc.declare(name+mangle(l.Suffix), l.Sort))
	}
	ex.typed(nil, v)
	return v
}

func (ex *Exec) materialiseMap(g *gInit, lit *ast.CompositeLit, t types.Type, mt *types.Map, st *State) Val {
	name := "gmap!" + mangle(fmt.Sprint(g.pkg.Path(), "/", ex.P.fset.Position(lit.Pos()).Line))
	if _, done := ex.vc.declared[name]; done {
		return Val{T: t, L: []Term{Term{name, SInt}}}
	}
	ref := ex.vc.declare(name, SInt)
	ex.vc.assert(Eq(ref, Int(int64(-2000-len(ex.vc.declared)))))
	mtn := typeName(t)
	// constant maps live in their own (never havocked) heaps keyed K:
	has := ex.heapInfo("KM", mtn, "has", Leaf{"", SBool, nil, "map"}, "K:"+mtn, 2)
	_ = has
	var keys, vals []Term
	okAll := true
	for _, el := range lit.Elts {
		kv, ok := el.(*ast.KeyValueExpr)
		if !ok {
			okAll = false
			break
		}
		ktv, vtv := g.info.Types[kv.Key], g.info.Types[kv.Value]
		if ktv.Value == nil || vtv.Value == nil || ktv.Value.Kind() != constant.Int || vtv.Value.Kind() != constant.Int {
			okAll = false
			break
		}
		keys = append(keys, IntS(ktv.Value.ExactString()))
		vals = append(vals, IntS(vtv.Value.ExactString()))
	}
	if !okAll {
		// content unknown
		ex.note("map literal with non-constant entries at %s treated as unknown", ex.P.pos(lit.Pos()))
		return Val{T: t, L: []Term{ref}}
	}
	ex.constMaps[ref.S] = &constMap{keys: keys, vals: vals, mtn: mtn}
	return Val{T: t, L: []Term{ref}}
}

type constMap struct {
	keys, vals []Term
	mtn        string
}

func (ex *Exec) materialiseSlice(g *gInit, lit *ast.CompositeLit, t types.Type, sl *types.Slice, st *State) Val {
	name := "gslice!" + mangle(fmt.Sprint(g.pkg.Path(), "/", ex.P.fset.Position(lit.Pos()).Line))
	ref := ex.vc.declare(name, SInt)
	ex.fact(Eq(ref, Int(int64(-3000-int64(hashStr(name)%100000)))))
	n := int64(len(lit.Elts))
	return Val{T: t, L: []Term{ref, Int(0), Int(n), Int(n)}}
}


// atomic.AddUintN(&x, d): x += d (wrapping), returns the new value. The
// operation is a single atomic action (listed in the trusted base).
func hAtomicAdd(bits int) externHandler {
	return func(fr *Frame, cc *ssa.CallCommon, args []Val, st *State, instr ssa.Instruction) (*State, []Val) {
		ex := fr.ex
		loc := ex.ptrLoc(args[0])
		el := under(cc.Args[0].Type()).(*types.Pointer).Elem()
		if len(loc.Idx) > 0 {
			fr.oblige(st, "nil", exprLabel(fr, cc.Args[0]), Ne(loc.Idx[0], Int(0)), instr.Pos())
		}
		old := ex.load(st, loc, el)
		nv := ex.vc.define("atomicadd", wrap(Add(old.one(), args[1].one()), el, true))
		ex.store(st, loc, el, Val{T: el, L: []Term{nv}})
		return st, []Val{{T: el, L: []Term{nv}}}
	}
}
