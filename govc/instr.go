package main

// SSA instruction semantics.

import (
	"fmt"
	"go/constant"
	"go/token"
	"go/types"
	"sort"
	"strings"

	"golang.org/x/tools/go/ssa"
)

func constantString(c *ssa.Const) string {
	return constant.StringVal(c.Value)
}

// step executes one instruction; returns nil if control does not continue.
func (fr *Frame) step(instr ssa.Instruction, st *State) *State {
	ex := fr.ex
	switch x := instr.(type) {
	case *ssa.DebugRef:
		return st
	case *ssa.Alloc:
		fr.vals[x] = fr.doAlloc(x, st)
	case *ssa.FieldAddr:
		base := ex.val(fr, x.X, st)
		loc := ex.ptrLoc(base)
		if len(loc.Idx) > 0 {
			fr.oblige(st, "nil", exprLabel(fr, x.X), Ne(loc.Idx[0], Int(0)), x.Pos())
		}
		stt := under(x.X.Type().(*types.Pointer).Elem()).(*types.Struct)
		f := stt.Field(x.Field)
		nl := Loc{Fam: loc.Fam, Root: loc.Root, Path: loc.Path + "." + f.Name(), Idx: loc.Idx, RootT: loc.RootT}
		fr.vals[x] = Val{T: x.Type(), L: loc.Idx, P: &nl}
	case *ssa.Field:
		v := ex.val(fr, x.X, st)
		lo, hi := fieldRange(x.X.Type(), x.Field)
		fr.vals[x] = Val{T: x.Type(), L: v.L[lo:hi]}
	case *ssa.IndexAddr:
		fr.vals[x] = fr.doIndexAddr(x, st)
	case *ssa.Index:
		if isString(x.X.Type()) {
			xv := ex.val(fr, x.X, st)
			i := ex.val(fr, x.Index, st).one()
			fr.oblige(st, "index", exprLabel(fr, x.X)+"["+exprLabel(fr, x.Index)+"]", And(Le(Int(0), i), Lt(i, slen(xv.one()))), x.Pos())
			c := sat(xv.one(), i)
			ex.fact(And(Le(Int(0), c), Le(c, Int(255))))
			fr.vals[x] = Val{T: x.Type(), L: []Term{c}}
			return st
		}
		unsup("Index on array value")
	case *ssa.Lookup:
		fr.vals[x] = fr.doLookup(x, st)
	case *ssa.UnOp:
		return fr.doUnOp(x, st)
	case *ssa.Store:
		addr := ex.val(fr, x.Addr, st)
		loc := ex.ptrLoc(addr)
		if len(loc.Idx) > 0 {
			fr.oblige(st, "nil", exprLabel(fr, x.Addr), Ne(loc.Idx[0], Int(0)), x.Pos())
		}
		v := ex.val(fr, x.Val, st)
		fr.checkEscape(v, "store")
		ex.store(st, loc, x.Val.Type(), v)
	case *ssa.BinOp:
		fr.vals[x] = fr.doBinOp(x, st)
	case *ssa.Phi:
		// handled at block entry
	case *ssa.Convert:
		fr.vals[x] = fr.doConvert(x, st)
	case *ssa.ChangeType:
		v := ex.val(fr, x.X, st)
		v.T = x.Type()
		fr.vals[x] = v
	case *ssa.ChangeInterface:
		v := ex.val(fr, x.X, st)
		v.T = x.Type()
		fr.vals[x] = v
	case *ssa.MakeInterface:
		fr.vals[x] = fr.makeIface(ex.val(fr, x.X, st), x.X.Type(), x.Type(), st)
	case *ssa.TypeAssert:
		fr.vals[x] = fr.doTypeAssert(x, st)
	case *ssa.Extract:
		tv := ex.val(fr, x.Tuple, st)
		tt := x.Tuple.Type().(*types.Tuple)
		lo, hi := tupleRange(tt, x.Index)
		r := Val{T: x.Type(), L: tv.L[lo:hi]}
		fr.vals[x] = r
	case *ssa.Slice:
		fr.vals[x] = fr.doSlice(x, st)
	case *ssa.MakeSlice:
		fr.vals[x] = fr.doMakeSlice(x, st)
	case *ssa.MakeMap:
		r := ex.allocRef(st, "map")
		mt := typeName(x.Type())
		has := ex.mapHeap(mt, "has", SBool)
		st.set(has, ex.vc.define(has.Name, Store(st.get(has), r, Term{"((as const (Array Int Bool)) false)", SArrB})))
		cnt := ex.mapCount(mt)
		st.set(cnt, ex.vc.define(cnt.Name, Store(st.get(cnt), r, Int(0))))
		fr.vals[x] = Val{T: x.Type(), L: []Term{r}}
	case *ssa.MapUpdate:
		fr.doMapUpdate(x, st)
	case *ssa.MakeChan:
		r := ex.allocRef(st, "chan")
		fr.vals[x] = Val{T: x.Type(), L: []Term{r}}
		h := ex.chanHeap("closed", SBool)
		st.set(h, ex.vc.define(h.Name, Store(st.get(h), r, False)))
	case *ssa.MakeClosure:
		// closure value: fresh ref; bindings remembered statically
		r := ex.allocRef(st, "closure")
		fr.vals[x] = Val{T: x.Type(), L: []Term{r}}
	case *ssa.Call:
		return fr.doCall(x, x.Common(), st, false)
	case *ssa.Defer:
		cc := x.Common()
		// evaluate arguments now
		args := make([]Val, len(cc.Args))
		for i, a := range cc.Args {
			args[i] = ex.val(fr, a, st)
		}
		var recv Val
		if cc.IsInvoke() {
			recv = ex.val(fr, cc.Value, st)
		} else if _, ok := cc.Value.(*ssa.Function); !ok {
			if _, ok := cc.Value.(*ssa.Builtin); !ok {
				recv = ex.val(fr, cc.Value, st)
			}
		}
		cond := st.reach
		d := &deferRec{cond: cond, desc: cc.String()}
		xx := x
		d.run = func(s *State) *State {
			return fr.applyCall(xx, cc, recv, args, s, nil)
		}
		nd := make([]*deferRec, len(st.defers), len(st.defers)+1)
		copy(nd, st.defers)
		st.defers = append(nd, d)
	case *ssa.RunDefers:
		return fr.runDefers(st)
	case *ssa.Go:
		ex.note("go statement dropped at %s", ex.P.pos(x.Pos()))
	case *ssa.Send:
		return fr.doSend(x, st)
	case *ssa.Select:
		return fr.doSelect(x, st)
	case *ssa.Range:
		fr.doRange(x, st)
	case *ssa.Next:
		fr.doNext(x, st)
	case *ssa.Panic:
		fr.oblige(st, "panic", "explicit", False, x.Pos())
		return nil
	case *ssa.Return:
		vals := make([]Val, len(x.Results))
		for i, r := range x.Results {
			vals[i] = ex.val(fr, r, st)
		}
		cne := false
		if n := len(x.Results); n > 0 {
			if c, ok := x.Results[n-1].(*ssa.Const); ok && c.Value == nil {
				cne = true
			}
		}
		fr.rets = append(fr.rets, retRec{st: st, vals: vals, pos: x.Pos(), constNilErr: cne})
		if !fr.inline && ex.onReturn != nil {
			// path-sensitive exit checks are made right here, while the VC only
			// contains what precedes this return
			ex.onReturn(fr, st.clone(), vals, len(fr.rets))
		}
		return nil
	case *ssa.If, *ssa.Jump:
		return st
	default:
		unsup("instruction %T in %s", instr, fr.fn)
	}
	return st
}

// checkEscape: pointers with non-default static locations cannot be stored
// into memory or passed across contract boundaries.
func (fr *Frame) checkEscape(v Val, what string) {
	if v.P != nil && isPointer(v.T) && !isDefaultLoc(v.T, v.P) {
		unsup("interior pointer escapes via %s in %s", what, fr.fn)
	}
}

func (fr *Frame) doAlloc(x *ssa.Alloc, st *State) Val {
	ex := fr.ex
	el := x.Type().(*types.Pointer).Elem()
	base := "new"
	if x.Comment != "" {
		base = "new_" + x.Comment
	}
	r := ex.allocRef(st, base)
	loc := defaultLoc(x.Type(), r)
	switch loc.Fam {
	case "AA":
		h := ex.leafHeaps("A", loc.Root, "", under(el).(*types.Array).Elem(), "")
		for _, hh := range h {
			z := "0"
			if hh.Leaf.Sort == SBool {
				z = "false"
			}
			zero := Term{fmt.Sprintf("((as const %s) %s)", arrOf(hh.Leaf.Sort), z), arrOf(hh.Leaf.Sort)}
			st.set(hh, ex.vc.define(hh.Name, Store(st.get(hh), r, zero)))
		}
	case "EA":
		et := under(el).(*types.Array).Elem()
		for _, hh := range ex.leafHeaps("E", loc.Root, "", et, "") {
			z := "0"
			if hh.Leaf.Sort == SBool {
				z = "false"
			}
			zero := Term{fmt.Sprintf("((as const %s) %s)", arrOf(hh.Leaf.Sort), z), arrOf(hh.Leaf.Sort)}
			st.set(hh, ex.vc.define(hh.Name, Store(st.get(hh), r, zero)))
		}
	default:
		ex.store(st, *loc, el, zeroVal(el))
	}
	ex.ghostDefaults(st, r, el)
	return Val{T: x.Type(), L: []Term{r}, P: loc}
}

func (fr *Frame) doIndexAddr(x *ssa.IndexAddr, st *State) Val {
	ex := fr.ex
	base := ex.val(fr, x.X, st)
	idx := ex.val(fr, x.Index, st).one()
	var arr, off, ln Term
	var et types.Type
	switch t := under(x.X.Type()).(type) {
	case *types.Slice:
		arr, off, ln = base.L[0], base.L[1], base.L[2]
		et = t.Elem()
	case *types.Pointer:
		at := under(t.Elem()).(*types.Array)
		loc := ex.ptrLoc(base)
		fr.oblige(st, "nil", exprLabel(fr, x.X), Ne(loc.Idx[0], Int(0)), x.Pos())
		arr, off, ln = loc.Idx[0], Int(0), Int(at.Len())
		et = at.Elem()
	default:
		unsup("IndexAddr on %s", x.X.Type())
	}
	fr.oblige(st, "index", exprLabel(fr, x.X)+"["+exprLabel(fr, x.Index)+"]", And(Le(Int(0), idx), Lt(idx, ln)), x.Pos())
	i := Add(off, idx)
	var loc Loc
	if isStruct(et) {
		loc = Loc{Fam: "E", Root: typeName(et), Idx: []Term{arr, i}, RootT: et}
	} else {
		loc = Loc{Fam: "A", Root: typeName(et), Idx: []Term{arr, i}}
	}
	return Val{T: x.Type(), L: loc.Idx, P: &loc}
}

func (ex *Exec) mapHeap(mt, what string, s Sort) *HeapInfo {
	return ex.heapInfo("M", mt, what, Leaf{"", s, nil, "map"}, "M:"+mt, 2)
}
func (ex *Exec) mapCount(mt string) *HeapInfo {
	return ex.heapInfo("MC", mt, "count", Leaf{"", SInt, nil, "map"}, "M:"+mt, 1)
}
func (ex *Exec) chanHeap(what string, s Sort) *HeapInfo {
	return ex.heapInfo("CH", "chan", what, Leaf{"", s, nil, "chan"}, "CH:state", 1)
}

func (fr *Frame) mapKey(v Val) Term {
	if len(v.L) != 1 {
		unsup("map key with %d leaves", len(v.L))
	}
	return v.L[0]
}

func (fr *Frame) doLookup(x *ssa.Lookup, st *State) Val {
	ex := fr.ex
	xv := ex.val(fr, x.X, st)
	if isString(x.X.Type()) {
		i := ex.val(fr, x.Index, st).one()
		fr.oblige(st, "index", exprLabel(fr, x.X)+"["+exprLabel(fr, x.Index)+"]", And(Le(Int(0), i), Lt(i, slen(xv.one()))), x.Pos())
		c := sat(xv.one(), i)
		ex.fact(And(Le(Int(0), c), Le(c, Int(255))))
		return Val{T: x.Type(), L: []Term{c}}
	}
	mt := under(x.X.Type()).(*types.Map)
	mtn := typeName(x.X.Type())
	k := fr.mapKey(ex.val(fr, x.Index, st))
	m := xv.one()
	if cm, ok := ex.constMaps[m.S]; ok {
		has := False
		val := Int(0)
		for i := len(cm.keys) - 1; i >= 0; i-- {
			has = Or(Eq(k, cm.keys[i]), has)
			val = Ite(Eq(k, cm.keys[i]), cm.vals[i], val)
		}
		v := Val{T: mt.Elem(), L: []Term{ex.vc.define("cmval", val)}}
		if x.CommaOk {
			return Val{T: x.Type(), L: []Term{v.L[0], ex.vc.define("cmok", has)}}
		}
		return v
	}
	has := Select(Select(st.get(ex.mapHeap(mtn, "has", SBool)), m), k)
	has = And(Ne(m, Int(0)), has)
	var val Val
	val.T = mt.Elem()
	for _, l := range shape(mt.Elem()) {
		h := ex.heapInfo("M", mtn, "val"+l.Suffix, l, "M:"+mtn, 2)
		raw := Select(Select(st.get(h), m), k)
		var z Term
		if l.Sort == SBool {
			z = False
		} else {
			z = Int(0)
		}
		val.L = append(val.L, ex.vc.define("mapval", Ite(has, raw, z)))
	}
	ex.typed(st, val)
	if isPointer(mt.Elem()) && len(val.L) == 1 {
		// like a field load: a pointer read from a map denotes a pre-existing object whose
		// declared invariants hold
		fr.assumeObjInv(st, val, mt.Elem(), st.reach)
	}
	if x.CommaOk {
		return Val{T: x.Type(), L: append(append([]Term{}, val.L...), ex.vc.define("mapok", has))}
	}
	return val
}

func (fr *Frame) doMapUpdate(x *ssa.MapUpdate, st *State) {
	ex := fr.ex
	mv := ex.val(fr, x.Map, st).one()
	mtn := typeName(x.Map.Type())
	mt := under(x.Map.Type()).(*types.Map)
	fr.oblige(st, "nilmap", exprLabel(fr, x.Map), Ne(mv, Int(0)), x.Pos())
	k := fr.mapKey(ex.val(fr, x.Key, st))
	v := ex.val(fr, x.Value, st)
	fr.checkEscape(v, "map update")
	hh := ex.mapHeap(mtn, "has", SBool)
	old := st.get(hh)
	st.set(hh, ex.vc.define(hh.Name, Store(old, mv, Store(Select(old, mv), k, True))))
	for i, l := range shape(mt.Elem()) {
		h := ex.heapInfo("M", mtn, "val"+l.Suffix, l, "M:"+mtn, 2)
		o := st.get(h)
		st.set(h, ex.vc.define(h.Name, Store(o, mv, Store(Select(o, mv), k, v.L[i]))))
	}
	cnt := ex.mapCount(mtn)
	oc := st.get(cnt)
	nc := ex.vc.fresh("mapcount", SInt)
	ex.vc.assert(And(Ge(nc, Select(oc, mv)), Le(nc, Add(Select(oc, mv), Int(1))), Ge(nc, Int(1))))
	st.set(cnt, ex.vc.define(cnt.Name, Store(oc, mv, nc)))
}

func (fr *Frame) doUnOp(x *ssa.UnOp, st *State) *State {
	ex := fr.ex
	switch x.Op {
	case token.MUL:
		p := ex.val(fr, x.X, st)
		loc := ex.ptrLoc(p)
		if loc.Fam == "G" {
			// constant sentinels
			if ex.P.errGlobals[loc.Root] && loc.Path == "" {
				fr.vals[x] = ex.sentinel(loc.Root)
				return st
			}
			if v, ok := fr.constGlobal(loc, x.Type(), st); ok {
				fr.vals[x] = v
				return st
			}
		}
		if len(loc.Idx) > 0 {
			fr.oblige(st, "nil", exprLabel(fr, x.X), Ne(loc.Idx[0], Int(0)), x.Pos())
		}
		if loc.Fam == "AA" || loc.Fam == "EA" {
			unsup("load of array value")
		}
		lv := ex.load(st, loc, x.Type())
		fr.vals[x] = lv
		if isPointer(x.Type()) && len(lv.L) == 1 {
			fr.assumeObjInv(st, lv, x.Type(), st.reach)
		}
	case token.NOT:
		fr.vals[x] = Val{T: x.Type(), L: []Term{Not(ex.val(fr, x.X, st).one())}}
	case token.SUB:
		v := ex.val(fr, x.X, st).one()
		if isFloat(x.Type()) {
			ex.vc.declareFun("fneg", []Sort{SInt}, SInt)
			fr.vals[x] = Val{T: x.Type(), L: []Term{app(SInt, "fneg", v)}}
		} else {
			fr.vals[x] = Val{T: x.Type(), L: []Term{ex.vc.define("neg", wrap(Neg(v), x.Type(), true))}}
		}
	case token.XOR:
		v := ex.val(fr, x.X, st).one()
		signed, bits, _ := intRange(x.Type())
		if signed {
			fr.vals[x] = Val{T: x.Type(), L: []Term{Sub(Neg(v), Int(1))}}
		} else {
			_, hi := minMax(false, bits)
			fr.vals[x] = Val{T: x.Type(), L: []Term{Sub(hi, v)}}
		}
	case token.ARROW:
		return fr.doRecv(x, st)
	default:
		unsup("unop %s", x.Op)
	}
	return st
}

// constGlobal returns the value of a package-level variable that is never
// written outside init and has a literal initialiser we understand.
func (fr *Frame) constGlobal(loc Loc, t types.Type, st *State) (Val, bool) {
	ex := fr.ex
	if !ex.P.constGlobals[loc.Root] || loc.Path != "" {
		return Val{}, false
	}
	if gv, ok := ex.P.globalInit(loc.Root); ok {
		return ex.materialise(gv, t, st), true
	}
	return Val{}, false
}

func (fr *Frame) doBinOp(x *ssa.BinOp, st *State) Val {
	ex := fr.ex
	a := ex.val(fr, x.X, st)
	b := ex.val(fr, x.Y, st)
	t := x.X.Type()
	res := func(tm Term) Val { return Val{T: x.Type(), L: []Term{tm}} }
	switch x.Op {
	case token.EQL, token.NEQ:
		eq := fr.valEq(a, b, t, x.Y.Type(), st)
		if x.Op == token.NEQ {
			eq = Not(eq)
		}
		return res(ex.vc.define("cmp", eq))
	}
	if isString(t) {
		switch x.Op {
		case token.ADD:
			r := ex.freshStr(st, "concat")
			ex.vc.assert(Eq(slen(r), Add(slen(a.one()), slen(b.one()))))
			// content
			ex.vc.assert(Forall([]string{"ci"}, Implies(And(Le(Int(0), Term{"ci", SInt}), Lt(Term{"ci", SInt}, slen(r))),
				Eq(sat(r, Term{"ci", SInt}), Ite(Lt(Term{"ci", SInt}, slen(a.one())), sat(a.one(), Term{"ci", SInt}), sat(b.one(), Sub(Term{"ci", SInt}, slen(a.one())))))),
				sat(r, Term{"ci", SInt})))
			return res(r)
		case token.LSS, token.LEQ, token.GTR, token.GEQ:
			ex.vc.declareFun("strlt", []Sort{SInt, SInt}, SBool)
			switch x.Op {
			case token.LSS:
				return res(app(SBool, "strlt", a.one(), b.one()))
			case token.GTR:
				return res(app(SBool, "strlt", b.one(), a.one()))
			case token.LEQ:
				return res(Not(app(SBool, "strlt", b.one(), a.one())))
			default:
				return res(Not(app(SBool, "strlt", a.one(), b.one())))
			}
		}
		unsup("string binop %s", x.Op)
	}
	if isFloat(t) {
		name := "f" + map[token.Token]string{token.ADD: "add", token.SUB: "sub", token.MUL: "mul", token.QUO: "div", token.LSS: "lt", token.LEQ: "le", token.GTR: "gt", token.GEQ: "ge"}[x.Op]
		if name == "f" {
			unsup("float binop %s", x.Op)
		}
		rs := SInt
		switch x.Op {
		case token.LSS, token.LEQ, token.GTR, token.GEQ:
			rs = SBool
		}
		ex.vc.declareFun(name, []Sort{SInt, SInt}, rs)
		return res(app(rs, name, a.one(), b.one()))
	}
	if isBoolT(t) {
		unsup("bool binop %s", x.Op)
	}
	av, bv := a.one(), b.one()
	rt := x.Type()
	switch x.Op {
	case token.ADD:
		return res(ex.vc.define("add", wrap(Add(av, bv), rt, true)))
	case token.SUB:
		return res(ex.vc.define("sub", wrap(Sub(av, bv), rt, true)))
	case token.MUL:
		_, aConst := x.X.(*ssa.Const)
		_, bConst := x.Y.(*ssa.Const)
		if aConst || bConst {
			return res(ex.vc.define("mul", wrap(Mul(av, bv), rt, false)))
		}
		// non-linear: keep as multiplication (solvers handle small cases), wrapped
		return res(ex.vc.define("mul", wrap(Mul(av, bv), rt, false)))
	case token.QUO:
		fr.oblige(st, "div0", exprLabel(fr, x.Y), Ne(bv, Int(0)), x.Pos())
		return res(ex.vc.define("quo", wrap(goDiv(av, bv), rt, true)))
	case token.REM:
		fr.oblige(st, "div0", exprLabel(fr, x.Y), Ne(bv, Int(0)), x.Pos())
		return res(ex.vc.define("rem", goRem(av, bv)))
	case token.LSS:
		return res(Lt(av, bv))
	case token.LEQ:
		return res(Le(av, bv))
	case token.GTR:
		return res(Gt(av, bv))
	case token.GEQ:
		return res(Ge(av, bv))
	case token.AND, token.OR, token.XOR, token.AND_NOT:
		return res(fr.bitOp(x.Op, av, bv, x.X, x.Y, rt))
	case token.SHL:
		if c, ok := x.Y.(*ssa.Const); ok && c.Value != nil {
			k, _ := constant.Int64Val(constant.ToInt(c.Value))
			if k >= 0 && k < 64 {
				return res(ex.vc.define("shl", wrap(Mul(av, pow2(int(k))), rt, false)))
			}
		}
		ex.vc.declareFun("shl", []Sort{SInt, SInt}, SInt)
		r := app(SInt, "shl", av, bv)
		ex.fact(inRange(r, rt))
		return res(r)
	case token.SHR:
		if c, ok := x.Y.(*ssa.Const); ok && c.Value != nil {
			k, _ := constant.Int64Val(constant.ToInt(c.Value))
			if k >= 0 && k < 64 {
				return res(ex.vc.define("shr", Div(av, pow2(int(k))))) // floor division = arithmetic shift
			}
		}
		ex.vc.declareFun("shr", []Sort{SInt, SInt}, SInt)
		r := app(SInt, "shr", av, bv)
		ex.fact(inRange(r, rt))
		if s, _, _ := intRange(rt); !s {
			ex.fact(Le(r, av))
		}
		return res(r)
	}
	unsup("binop %s", x.Op)
	return Val{}
}

// goDiv: truncated division in terms of SMT floor/euclidean div.
func goDiv(a, b Term) Term {
	// SMT-LIB div is euclidean: a = b*q + r, 0 <= r < |b|
	// Go: truncation toward zero.
	q := Div(a, b)
	r := Mod(a, b)
	// if a < 0 and r != 0: euclid q is floor (b>0) or ceil(b<0) variant; adjust
	return Ite(And(Lt(a, Int(0)), Ne(r, Int(0))), Ite(Gt(b, Int(0)), Add(q, Int(1)), Sub(q, Int(1))), q)
}

func goRem(a, b Term) Term {
	r := Mod(a, b)
	absb := Ite(Gt(b, Int(0)), b, Neg(b))
	return Ite(And(Lt(a, Int(0)), Ne(r, Int(0))), Sub(r, absb), r)
}

func constInt(v ssa.Value) (int64, bool) {
	c, ok := v.(*ssa.Const)
	if !ok || c.Value == nil {
		return 0, false
	}
	i, ok := constant.Int64Val(constant.ToInt(c.Value))
	return i, ok
}

func (fr *Frame) bitOp(op token.Token, a, b Term, xa, xb ssa.Value, rt types.Type) Term {
	ex := fr.ex
	signed, bits, _ := intRange(rt)
	// constant operand handling
	cv, isC := constInt(xb)
	other := a
	if !isC {
		cv, isC = constInt(xa)
		other = b
		if isC && op == token.AND_NOT {
			isC = false
		}
	}
	if isC && cv >= 0 && !signed {
		switch op {
		case token.AND:
			// mask of the form 2^k-1
			if cv&(cv+1) == 0 {
				k := 0
				for (int64(1) << k) <= cv && k < 63 {
					k++
				}
				if cv == 0 {
					return Int(0)
				}
				return ex.vc.define("and", Mod(other, pow2(k)))
			}
			// sum of selected bits
			var parts []Term
			for k := 0; k < bits && k < 63; k++ {
				if cv&(int64(1)<<k) != 0 {
					parts = append(parts, Mul(Mod(Div(other, pow2(k)), Int(2)), pow2(k)))
				}
			}
			if len(parts) == 0 {
				return Int(0)
			}
			if len(parts) == 1 {
				return ex.vc.define("and", parts[0])
			}
			return ex.vc.define("and", app(SInt, "+", parts...))
		case token.OR:
			var parts []Term
			parts = append(parts, other)
			for k := 0; k < bits && k < 63; k++ {
				if cv&(int64(1)<<k) != 0 {
					parts = append(parts, Mul(Sub(Int(1), Mod(Div(other, pow2(k)), Int(2))), pow2(k)))
				}
			}
			if len(parts) == 1 {
				return other
			}
			return ex.vc.define("or", app(SInt, "+", parts...))
		case token.AND_NOT:
			var parts []Term
			parts = append(parts, other)
			for k := 0; k < bits && k < 63; k++ {
				if cv&(int64(1)<<k) != 0 {
					parts = append(parts, Neg(Mul(Mod(Div(other, pow2(k)), Int(2)), pow2(k))))
				}
			}
			if len(parts) == 1 {
				return other
			}
			return ex.vc.define("andnot", app(SInt, "+", parts...))
		}
	}
	name := map[token.Token]string{token.AND: "band", token.OR: "bor", token.XOR: "bxor", token.AND_NOT: "bandnot"}[op]
	ex.vc.declareFun(name, []Sort{SInt, SInt}, SInt)
	r := app(SInt, name, a, b)
	ex.fact(inRange(r, rt))
	if !signed {
		switch op {
		case token.AND:
			ex.fact(And(Le(r, a), Le(r, b)))
		case token.OR:
			ex.fact(And(Ge(r, a), Ge(r, b), Le(r, Add(a, b))))
		case token.AND_NOT:
			ex.fact(Le(r, a))
		}
	}
	return r
}

// valEq builds equality of two Go values of (static) type t.
func (fr *Frame) valEq(a, b Val, ta, tb types.Type, st *State) Term {
	ex := fr.ex
	if isFloat(ta) {
		ex.vc.declareFun("feq", []Sort{SInt, SInt}, SBool)
		return app(SBool, "feq", a.one(), b.one())
	}
	if isPointer(ta) {
		// compare by index terms when static locations agree; nil comparisons only need the base
		if len(a.L) == 0 || len(b.L) == 0 {
			// global address vs something
			if len(a.L) == 0 && len(b.L) == 0 {
				if ex.ptrLoc(a).sameStatic(ex.ptrLoc(b)) {
					return True
				}
				return False
			}
			if len(a.L) == 0 {
				return Eq(b.L[0], Int(-1)) // address of a global is never nil nor a heap object
			}
			return Eq(a.L[0], Int(-1))
		}
		if isNilConst(b) || isNilConst(a) {
			return Eq(a.L[0], b.L[0])
		}
		la, lb := ex.ptrLoc(a), ex.ptrLoc(b)
		if !la.sameStatic(lb) {
			return False
		}
		var cs []Term
		for i := range la.Idx {
			cs = append(cs, Eq(la.Idx[i], lb.Idx[i]))
		}
		return And(cs...)
	}
	if isSlice(ta) {
		// only comparison with nil is legal
		return Eq(a.L[0], b.L[0])
	}
	if isIface(ta) || isIface(tb) {
		// iface vs iface: tag and payload. Payload equality for boxed values is
		// identity here (sound for pointers and sentinels, incomplete for boxed structs).
		if len(a.L) == 2 && len(b.L) == 2 {
			return And(Eq(a.L[0], b.L[0]), Eq(a.L[1], b.L[1]))
		}
		unsup("interface comparison with concrete value")
	}
	if len(a.L) != len(b.L) {
		panic("valEq arity")
	}
	var cs []Term
	for i := range a.L {
		cs = append(cs, Eq(a.L[i], b.L[i]))
	}
	return And(cs...)
}

func isNilConst(v Val) bool {
	for _, l := range v.L {
		if l.S != "0" {
			return false
		}
	}
	return v.P == nil
}

func (fr *Frame) doConvert(x *ssa.Convert, st *State) Val {
	ex := fr.ex
	v := ex.val(fr, x.X, st)
	from, to := x.X.Type(), x.Type()
	_, _, fi := intRange(from)
	_, _, ti := intRange(to)
	switch {
	case fi && ti:
		fs, fb, _ := intRange(from)
		ts, tb, _ := intRange(to)
		widening := (fs == ts && fb <= tb) || (!fs && ts && fb < tb)
		if widening {
			return Val{T: to, L: v.L}
		}
		return Val{T: to, L: []Term{ex.vc.define("conv", wrap(v.one(), to, false))}}
	case fi && isFloat(to):
		ex.vc.declareFun("i2f", []Sort{SInt}, SInt)
		return Val{T: to, L: []Term{app(SInt, "i2f", v.one())}}
	case isFloat(from) && ti:
		ex.vc.declareFun("f2i", []Sort{SInt}, SInt)
		r := ex.vc.define("f2i", app(SInt, "f2i", v.one()))
		// result is implementation-specific when out of range; model as any in-range value
		w := ex.vc.fresh("f2iw", SInt)
		ex.fact(inRange(w, to))
		ex.vc.assert(Implies(inRange(r, to), Eq(w, r)))
		return Val{T: to, L: []Term{w}}
	case isFloat(from) && isFloat(to):
		if types.Identical(under(from), under(to)) {
			return Val{T: to, L: v.L}
		}
		ex.vc.declareFun("f2f", []Sort{SInt}, SInt)
		return Val{T: to, L: []Term{app(SInt, "f2f", v.one())}}
	case isString(to) && isSlice(from):
		// string(bs)
		el := under(from).(*types.Slice).Elem()
		r := ex.freshStr(st, "str")
		ex.vc.assert(Eq(slen(r), v.L[2]))
		if b, ok := under(el).(*types.Basic); ok && b.Kind() == types.Uint8 {
			h := ex.leafHeaps("A", typeName(el), "", el, "")[0]
			k := Term{"ci", SInt}
			ex.vc.assert(Forall([]string{"ci"}, Implies(And(Le(Int(0), k), Lt(k, v.L[2])),
				Eq(sat(r, k), Select(Select(st.get(h), v.L[0]), Add(v.L[1], k)))), sat(r, k)))
		}
		return Val{T: to, L: []Term{r}}
	case isSlice(to) && isString(from):
		el := under(to).(*types.Slice).Elem()
		arr := ex.allocRef(st, "strbytes")
		n := slen(v.one())
		if b, ok := under(el).(*types.Basic); ok && b.Kind() == types.Uint8 {
			h := ex.leafHeaps("A", typeName(el), "", el, "")[0]
			na := ex.vc.fresh("strarr", SArr)
			k := Term{"ci", SInt}
			ex.vc.assert(Forall([]string{"ci"}, Implies(And(Le(Int(0), k), Lt(k, n)), Eq(Select(na, k), sat(v.one(), k))), Select(na, k)))
			ex.vc.assert(Forall([]string{"ci"}, And(Le(Int(0), Select(na, k)), Le(Select(na, k), Int(255))), Select(na, k)))
			st.set(h, ex.vc.define(h.Name, Store(st.get(h), arr, na)))
			return Val{T: to, L: []Term{Ite(Eq(n, Int(0)), arr, arr), Int(0), n, n}}
		}
		// []rune(s): length unknown but bounded
		ln := ex.vc.fresh("runelen", SInt)
		ex.vc.assert(And(Le(Int(0), ln), Le(ln, n)))
		return Val{T: to, L: []Term{arr, Int(0), ln, ln}}
	case isString(to) && fi:
		r := ex.freshStr(st, "runestr")
		ex.vc.assert(And(Le(Int(1), slen(r)), Le(slen(r), Int(4))))
		return Val{T: to, L: []Term{r}}
	case isPointer(to) || isPointer(from):
		unsup("unsafe pointer conversion")
	}
	if types.Identical(under(from), under(to)) {
		v.T = to
		return v
	}
	unsup("convert %s -> %s", from, to)
	return Val{}
}

// makeIface boxes a concrete value into an interface value.
func (fr *Frame) makeIface(v Val, ct types.Type, it types.Type, st *State) Val {
	ex := fr.ex
	tag := Int(int64(ex.P.tagOf(ct)))
	switch under(ct).(type) {
	case *types.Pointer:
		fr.checkEscape(v, "interface conversion")
		if len(v.L) == 0 {
			unsup("address of global in interface")
		}
		// ghost updates anchored "at box" (typestate set when an object is first handed out)
		if !fr.inline && fr.contract != nil {
			for _, g := range fr.contract.Ghost {
				if g.At != "box" {
					continue
				}
				genv := ex.newEnv(st, fr.entry, fr)
				genv.pkg = contractPkg(fr.contract.Func)
				fr.bindTopVars(genv)
				genv.vars["$box"] = v
				genv.assignGhost(g.LHS, g.RHS)
			}
		}
		// an object handed out behind an interface must satisfy its invariants
		for _, tgt := range ex.P.invTargets(ex, v, ct) {
			env := ex.newEnv(st, st, fr)
			env.pkg = tgt.tn[:strings.Index(tgt.tn, ".")]
			env.vars["this"] = tgt.v
			for ci, c := range tgt.cs {
				lbl := c.Label
				if lbl == "" {
					lbl = fmt.Sprintf("%d", ci)
				}
				fr.oblige(st, "typeinv", fmt.Sprintf("box %s/%s", tgt.tn, lbl), Implies(Ne(v.L[0], Int(0)), safeEval(env, c)), 0)
			}
		}
		return Val{T: it, L: []Term{tag, v.L[0]}}
	case *types.Map, *types.Chan, *types.Signature:
		return Val{T: it, L: []Term{tag, v.L[0]}}
	case *types.Basic:
		if hasMethods(ct) {
			break // boxed, so that payloads of non-empty interfaces are always references
		}
		if len(v.L) == 1 && v.L[0].Sort == SInt {
			return Val{T: it, L: []Term{tag, v.L[0]}}
		}
		if len(v.L) == 1 {
			return Val{T: it, L: []Term{tag, Ite(v.L[0], Int(1), Int(0))}}
		}
	case *types.Interface:
		return Val{T: it, L: v.L}
	}
	// box: fresh object holding the value
	r := ex.allocRef(st, "box")
	var loc Loc
	if isStruct(ct) {
		loc = Loc{Fam: "H", Root: typeName(ct), Idx: []Term{r}, RootT: ct}
	} else {
		loc = Loc{Fam: "C", Root: typeName(ct), Idx: []Term{r}}
	}
	ex.store(st, loc, ct, v)
	return Val{T: it, L: []Term{tag, r}}
}

// unbox extracts a concrete value of type ct from an interface payload.
func (fr *Frame) unbox(pl Term, ct types.Type, st *State) Val {
	ex := fr.ex
	switch under(ct).(type) {
	case *types.Pointer, *types.Map, *types.Chan, *types.Signature:
		v := Val{T: ct, L: []Term{pl}}
		return v
	case *types.Basic:
		if hasMethods(ct) {
			break
		}
		ls := shape(ct)
		if len(ls) == 1 && ls[0].Sort == SInt {
			return Val{T: ct, L: []Term{pl}}
		}
		if len(ls) == 1 {
			return Val{T: ct, L: []Term{Ne(pl, Int(0))}}
		}
	}
	var loc Loc
	if isStruct(ct) {
		loc = Loc{Fam: "H", Root: typeName(ct), Idx: []Term{pl}, RootT: ct}
	} else {
		loc = Loc{Fam: "C", Root: typeName(ct), Idx: []Term{pl}}
	}
	return ex.load(st, loc, ct)
}

func (fr *Frame) doTypeAssert(x *ssa.TypeAssert, st *State) Val {
	ex := fr.ex
	v := ex.val(fr, x.X, st)
	tag, pl := v.L[0], v.L[1]
	at := x.AssertedType
	var ok Term
	var res Val
	if isIface(at) {
		ok = fr.implementsTerm(tag, at)
		res = Val{T: at, L: []Term{tag, pl}}
	} else {
		ok = Eq(tag, Int(int64(ex.P.tagOf(at))))
		ok = ex.vc.define("isT", ok)
		res = fr.unbox(pl, at, st)
		if isPointer(at) {
			// object invariants hold for every object reachable at this point
			fr.assumeObjInv(st, res, at, And(ok, st.reach))
		}
	}
	if x.CommaOk {
		// value is zero when !ok
		var ls []Term
		for _, l := range res.L {
			var z Term
			if l.Sort == SBool {
				z = False
			} else {
				z = Int(0)
			}
			ls = append(ls, ex.vc.define("ta", Ite(ok, l, z)))
		}
		ls = append(ls, ok)
		return Val{T: x.Type(), L: ls}
	}
	fr.oblige(st, "assert", exprLabel(fr, x.X)+".("+typeName(at)+")", ok, x.Pos())
	return res
}

// orTrueIfUnknown: a typed pointer stored in an interface may be nil, so no
// fact is derived. (Kept as an explicit no-op for documentation.)
func (t Term) orTrueIfUnknown() Term { return True }

// implementsTerm: does the dynamic type with this tag implement iface at?
func (fr *Frame) implementsTerm(tag Term, at types.Type) Term {
	ex := fr.ex
	it := under(at).(*types.Interface)
	if it.NumMethods() == 0 {
		return Ne(tag, Int(0))
	}
	name := "impl$" + mangle(typeName(at))
	ex.vc.declareFun(name, []Sort{SInt}, SBool)
	ex.fact(Not(app(SBool, name, Int(0))))
	// known types
	for k, id := range ex.P.tags {
		_ = k
		t := ex.P.tagTypes[id-1]
		if _, isS := t.(sentinelType); isS {
			continue
		}
		if types.Implements(t, it) {
			ex.fact(app(SBool, name, Int(int64(id))))
		} else {
			ex.fact(Not(app(SBool, name, Int(int64(id)))))
		}
	}
	return app(SBool, name, tag)
}

func (fr *Frame) doSlice(x *ssa.Slice, st *State) Val {
	ex := fr.ex
	base := ex.val(fr, x.X, st)
	var lo, hi, mx Term
	hasLo, hasHi, hasMax := x.Low != nil, x.High != nil, x.Max != nil
	if hasLo {
		lo = ex.val(fr, x.Low, st).one()
	} else {
		lo = Int(0)
	}
	lbl := exprLabel(fr, x.X) + "[" + func() string {
		s := ""
		if hasLo {
			s += exprLabel(fr, x.Low)
		}
		s += ":"
		if hasHi {
			s += exprLabel(fr, x.High)
		}
		return s
	}() + "]"
	switch t := under(x.X.Type()).(type) {
	case *types.Slice:
		arr, off, ln, cp := base.L[0], base.L[1], base.L[2], base.L[3]
		if hasHi {
			hi = ex.val(fr, x.High, st).one()
		} else {
			hi = ln
		}
		if hasMax {
			mx = ex.val(fr, x.Max, st).one()
		} else {
			mx = cp
		}
		fr.oblige(st, "slice", lbl, And(Le(Int(0), lo), Le(lo, hi), Le(hi, mx), Le(mx, cp)), x.Pos())
		return Val{T: x.Type(), L: []Term{arr, ex.vc.define("off", Add(off, lo)), ex.vc.define("len", Sub(hi, lo)), ex.vc.define("cap", Sub(mx, lo))}}
	case *types.Basic: // string
		s := base.one()
		if hasHi {
			hi = ex.val(fr, x.High, st).one()
		} else {
			hi = slen(s)
		}
		fr.oblige(st, "slice", lbl, And(Le(Int(0), lo), Le(lo, hi), Le(hi, slen(s))), x.Pos())
		r := ex.freshStr(st, "substr")
		ex.vc.assert(Eq(slen(r), Sub(hi, lo)))
		k := Term{"ci", SInt}
		ex.vc.assert(Forall([]string{"ci"}, Implies(And(Le(Int(0), k), Lt(k, Sub(hi, lo))), Eq(sat(r, k), sat(s, Add(lo, k)))), sat(r, k)))
		// slicing the whole string yields the same string
		ex.vc.assert(Implies(And(Eq(lo, Int(0)), Eq(hi, slen(s))), Eq(r, s)))
		return Val{T: x.Type(), L: []Term{r}}
	case *types.Pointer:
		at := under(t.Elem()).(*types.Array)
		loc := ex.ptrLoc(base)
		n := Int(at.Len())
		if hasHi {
			hi = ex.val(fr, x.High, st).one()
		} else {
			hi = n
		}
		if hasMax {
			mx = ex.val(fr, x.Max, st).one()
		} else {
			mx = n
		}
		fr.oblige(st, "nil", exprLabel(fr, x.X), Ne(loc.Idx[0], Int(0)), x.Pos())
		fr.oblige(st, "slice", lbl, And(Le(Int(0), lo), Le(lo, hi), Le(hi, mx), Le(mx, n)), x.Pos())
		return Val{T: x.Type(), L: []Term{loc.Idx[0], lo, ex.vc.define("len", Sub(hi, lo)), ex.vc.define("cap", Sub(mx, lo))}}
	}
	unsup("slice of %s", x.X.Type())
	return Val{}
}

func (fr *Frame) doMakeSlice(x *ssa.MakeSlice, st *State) Val {
	ex := fr.ex
	ln := ex.val(fr, x.Len, st).one()
	cp := ex.val(fr, x.Cap, st).one()
	fr.oblige(st, "makelen", exprLabel(fr, x.Len), And(Le(Int(0), ln), Le(ln, cp), Le(cp, Int(maxElems(x.Type())))), x.Pos())
	fr.allocObligation(st, x, ln)
	et := under(x.Type()).(*types.Slice).Elem()
	arr := ex.allocRef(st, "mkslice")
	fam := "A"
	if isStruct(et) {
		fam = "E"
	}
	for _, hh := range ex.leafHeaps(fam, typeName(et), "", et, "") {
		z := "0"
		if hh.Leaf.Sort == SBool {
			z = "false"
		}
		zero := Term{fmt.Sprintf("((as const %s) %s)", arrOf(hh.Leaf.Sort), z), arrOf(hh.Leaf.Sort)}
		st.set(hh, ex.vc.define(hh.Name, Store(st.get(hh), arr, zero)))
	}
	return Val{T: x.Type(), L: []Term{arr, Int(0), ln, cp}}
}

// allocObligation is a hook for the C10 allocation-proportionality check.
func (fr *Frame) allocObligation(st *State, x ssa.Instruction, n Term) {
	if fr.ex.P.allocHook != nil {
		fr.ex.P.allocHook(fr, st, x, n)
	}
}


// ghostDefaults zero-initialises the ghost fields that can belong to a freshly
// allocated object of type el (owner is el itself or an interface *el implements).
func (ex *Exec) ghostDefaults(st *State, r Term, el types.Type) {
	if !isStruct(el) {
		return
	}
	tn := typeName(el)
	var keys []string
	for k := range ex.P.db.Ghosts {
		keys = append(keys, k)
	}
	sort.Strings(keys)
	for _, k := range keys {
		gf := ex.P.db.Ghosts[k]
		ok := gf.Owner == tn
		if !ok {
			if ot := ex.P.lookupNamedType(gf.Owner); ot != nil {
				if it, isI := under(ot).(*types.Interface); isI {
					ok = types.Implements(types.NewPointer(el), it) || types.Implements(el, it)
				} else if st2, isS := under(el).(*types.Struct); isS {
					// owner is a struct embedded (transitively) in el
					ok = embeds(st2, gf.Owner, 0)
				}
			}
		}
		if !ok {
			continue
		}
		h := ex.heapInfo("GH", gf.Owner, gf.Name, Leaf{"", gf.Sort, nil, "ghost"}, "GH:"+gf.Owner+"."+gf.Name, 1)
		var z Term
		switch gf.Sort {
		case SBool:
			z = False
		case SInt:
			z = Int(0)
		case SArrB:
			z = Term{"((as const (Array Int Bool)) false)", SArrB}
		case SArr:
			z = Term{"((as const (Array Int Int)) 0)", SArr}
		default:
			continue
		}
		st.set(h, ex.vc.define(h.Name, Store(st.get(h), r, z)))
	}
}

func embeds(st *types.Struct, owner string, depth int) bool {
	if depth > 6 {
		return false
	}
	for i := 0; i < st.NumFields(); i++ {
		f := st.Field(i)
		if !f.Embedded() {
			continue
		}
		if typeName(f.Type()) == owner {
			return true
		}
		if sub, ok := under(f.Type()).(*types.Struct); ok && embeds(sub, owner, depth+1) {
			return true
		}
	}
	return false
}

// assumeObjInv assumes the declared type invariants of the object v points to.
func (fr *Frame) assumeObjInv(st *State, v Val, t types.Type, cond Term) {
	ex := fr.ex
	// only objects that existed when the function was entered: objects created
	// since then may still be under construction
	if ex.entry != nil && len(v.L) > 0 {
		cond = And(cond, Le(v.L[0], ex.entry.alloc))
	}
	for _, it := range ex.P.invTargets(ex, v, t) {
		env := ex.newEnv(st, st, fr)
		env.pkg = it.tn[:strings.Index(it.tn, ".")]
		env.vars["this"] = it.v
		for _, c := range it.cs {
			ex.vc.assert(Implies(And(cond, Ne(v.L[0], Int(0))), safeEval(env, c)))
		}
	}
}


func hasMethods(t types.Type) bool {
	return types.NewMethodSet(t).Len() > 0 || types.NewMethodSet(types.NewPointer(t)).Len() > 0
}
