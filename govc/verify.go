package main

// Per-function verification: set-up of the entry state, contract handling at
// the top level, interface obligations, solving.

import (
	"encoding/json"
	"fmt"
	"go/types"
	"os"
	"path/filepath"
	"regexp"
	"sort"
	"strings"
	"sync"
	"time"

	"golang.org/x/tools/go/ssa"
)

type FuncResult struct {
	Fn          string
	Obls        []*Obligation
	Unsupported string
	Notes       []string
	Trusted     []string
	Unspec      []string
	Inlined     []string
	Loops       int
	AutoInv     map[string][]string
	Time        float64
	CoverOK     bool
	CoverRes    string
	ex          *Exec
}

type VerifyOpts struct {
	Timeout   int
	OutDir    string
	Houdini   bool
	Kinds     map[string]bool // nil = all
	IfaceOnly bool
	Solvers   string
	NoSolve   bool
	Extra     func(ex *Exec, fr *Frame, exit *State, res []Val, env *SpecEnv) // extra obligations at exit
	Filter    func(o *Obligation) bool
	Assume    []string // extra requires (spec source) for this run
	PerFn     func(fn string) []string
}

// ifaceContractsFor lists interface-method contracts that fn must satisfy.
func (P *Prog) ifaceContractsFor(fn *ssa.Function) []*Contract {
	if fn.Signature.Recv() == nil {
		return nil
	}
	rt := fn.Signature.Recv().Type()
	var out []*Contract
	var keys []string
	for k := range P.db.Funcs {
		if strings.HasPrefix(k, "iface:") {
			keys = append(keys, k)
		}
	}
	sort.Strings(keys)
	for _, k := range keys {
		c := P.db.Funcs[k]
		name := strings.TrimPrefix(k, "iface:")
		i := strings.LastIndex(name, ".")
		iname, mname := name[:i], name[i+1:]
		if mname != fn.Name() {
			continue
		}
		it := P.lookupNamedType(iname)
		if it == nil {
			continue
		}
		iface, ok := under(it).(*types.Interface)
		if !ok {
			continue
		}
		if own := P.contractFor(fn); own != nil && own.Props["noiface:"+name] {
			continue
		}
		_, rtIsPtr := rt.(*types.Pointer)
		if types.Implements(rt, iface) || (!rtIsPtr && types.Implements(types.NewPointer(rt), iface)) {
			if _, isPtr := rt.(*types.Pointer); !isPtr && contractUsesGhostOnThis(c) {
				continue // typestate ghosts are attached to object identity; value receivers have none
			}
			out = append(out, c)
		}
	}
	return out
}

func (P *Prog) lookupNamedType(name string) types.Type {
	i := strings.LastIndex(name, ".")
	if i < 0 {
		return nil
	}
	pk, tn := name[:i], name[i+1:]
	for _, p := range allPackages(P.pkgs) {
		if shortPkg(p.PkgPath) == pk || p.PkgPath == pk {
			if o := p.Types.Scope().Lookup(tn); o != nil {
				return o.Type()
			}
		}
	}
	return nil
}

func (P *Prog) buildVC(fn *ssa.Function, opts *VerifyOpts, houdini bool) (res *FuncResult) {
	ex := newExec(P, fn)
	ex.houdini = houdini
	ex.constMaps = map[string]*constMap{}
	res = &FuncResult{Fn: funcKey(fn), ex: ex}
	defer func() {
		if r := recover(); r != nil {
			switch e := r.(type) {
			case unsupported:
				res.Unsupported = e.msg
			case specErr:
				res.Unsupported = "contract error: " + e.msg
			default:
				if os.Getenv("GOVC_PANIC") != "" {
					panic(r)
				}
				res.Unsupported = fmt.Sprintf("engine error: %v", r)
			}
		}
		res.Notes = ex.notes
		for k := range ex.trusted {
			res.Trusted = append(res.Trusted, k)
		}
		for k := range ex.unspec {
			res.Unspec = append(res.Unspec, k)
		}
		for k := range ex.inlined {
			res.Inlined = append(res.Inlined, k)
		}
		sort.Strings(res.Trusted)
		sort.Strings(res.Unspec)
		sort.Strings(res.Inlined)
	}()
	ex.initSentinels()
	c := P.contractFor(fn)
	ex.topC = c
	st0 := &State{ex: ex, H: map[string]Term{}, kind: 0, reach: True}
	st0.alloc = ex.vc.declare("alloc!0", SInt)
	ex.vc.assert(Ge(st0.alloc, Int(0)))
	ex.entry = st0
	var params []Val
	for i, p := range fn.Params {
		v := ex.freshVal(st0, "p_"+p.Name(), p.Type())
		params = append(params, v)
		if i == 0 && fn.Signature.Recv() != nil && isPointer(p.Type()) {
			// methods are verified for non-nil receivers; call sites carry the matching obligation
			ex.vc.assert(Ne(v.L[0], Int(0)))
		}
	}
	var free []Val
	for _, fv := range fn.FreeVars {
		free = append(free, ex.freshVal(st0, "fv_"+fv.Name(), fv.Type()))
	}
	// bind names
	env := ex.newEnv(st0, st0, nil)
	if c != nil {
		env.pkg = contractPkg(c.Func)
	} else if pk := fnPkg(fn); pk != nil {
		env.pkg = shortPkg(pk.Path())
	}
	for i, p := range fn.Params {
		env.vars[p.Name()] = params[i]
	}
	for i, fv := range fn.FreeVars {
		env.vars[fv.Name()] = free[i]
	}
	if c != nil && len(c.ParamsOv) > 0 {
		for i, n := range contractParamNames(c, fn.Signature, false) {
			if i < len(params) {
				env.vars[n] = params[i]
			}
		}
	}
	if c != nil && c.ThisAlias && fn.Signature.Recv() != nil && len(params) > 0 {
		env.vars["this"] = params[0]
	}
	dummy := &Frame{ex: ex, fn: fn, vals: map[ssa.Value]Val{}}
	env.fr = dummy
	// requires
	if c != nil {
		for _, r := range c.Requires {
			ex.vc.assert(safeEval(env, r))
		}
	}
	ifcs := P.ifaceContractsFor(fn)
	ifEnvVars := func(ic *Contract) map[string]Val {
		names := contractParamNames(ic, fn.Signature, true)
		m := map[string]Val{}
		for i, n := range names {
			if i < len(params) {
				m[n] = params[i]
			}
		}
		return m
	}
	for _, ic := range ifcs {
		e2 := ex.newEnv(st0, st0, dummy)
		e2.pkg = contractPkg(ic.Func)
		e2.vars = ifEnvVars(ic)
		for _, r := range ic.Requires {
			ex.vc.assert(safeEval(e2, r))
		}
	}
	if opts != nil {
		extra := opts.Assume
		if opts.PerFn != nil {
			extra = append(extra, opts.PerFn(funcKey(fn))...)
		}
		for _, src := range extra {
			e, err := parseSpecExpr(src)
			if err != nil {
				panic(unsupported{err.Error()})
			}
			ex.vc.assert(safeEval(env, Clause{E: e, Src: src}))
		}
	}
	// type invariants of parameters
	for i, p := range fn.Params {
		P.assumeTypeInv(ex, st0, params[i], p.Type(), dummy)
		for _, cl := range P.db.ParamInv[typeName(p.Type())] {
			e2 := ex.newEnv(st0, st0, dummy)
			e2.pkg = contractPkgOf(typeName(p.Type()))
			e2.vars["this"] = params[i]
			ex.vc.assert(safeEval(e2, cl))
		}
	}
	// ghost updates anchored at entry (own contract and inherited interface contracts)
	ghostAt := func(anchor string, st *State, res []Val) *State {
		apply := func(cc *Contract, vars map[string]Val) {
			for _, g := range cc.Ghost {
				if g.At != anchor {
					continue
				}
				st = st.clone()
				e := ex.newEnv(st, st0, dummy)
				e.pkg = contractPkg(cc.Func)
				for k, v := range vars {
					e.vars[k] = v
				}
				if res != nil {
					for i, n := range contractResultNames(cc, fn.Signature) {
						e.vars[n] = res[i]
					}
				}
				func() {
					defer func() {
						if r := recover(); r != nil {
							if se, ok := r.(specErr); ok {
								panic(unsupported{fmt.Sprintf("ghost-update error in %s: %s (%s)", cc.Where, se.msg, g.Src)})
							}
							panic(r)
						}
					}()
					e.assignGhost(g.LHS, g.RHS)
				}()
			}
		}
		if c != nil {
			apply(c, env.vars)
		}
		for _, ic := range ifcs {
			apply(ic, ifEnvVars(ic))
		}
		return st
	}
	start := ghostAt("entry", st0, nil)
	if start == st0 {
		start = st0
	}
	var checkExit func(fr *Frame, exit *State, results []Val, sfx string)
	perReturn := c != nil && c.Props["per-return"]
	if perReturn {
		ex.onReturn = func(fr *Frame, st *State, vals []Val, k int) {
			vs := make([]Val, len(vals))
			for i := range vals {
				vs[i] = vals[i]
				vs[i].T = fn.Signature.Results().At(i).Type()
			}
			dummy.vals = fr.vals
			checkExit(fr, st, vs, fmt.Sprintf("@ret%d", k))
		}
	}
	var penv *SpecEnv
	checkExit = func(fr *Frame, exit *State, results []Val, sfx string) {
		// ghost updates at exit
		exit = ghostAt("exit", exit, results)
		// postconditions
		penv = ex.newEnv(exit, st0, fr)
		penv.pkg = env.pkg
		for k, v := range env.vars {
			penv.vars[k] = v
		}
		if c != nil {
			for i, n := range contractResultNames(c, fn.Signature) {
				penv.vars[n] = results[i]
			}
			for i, e := range c.Ensures {
				lbl := e.Label
				if lbl == "" {
					lbl = fmt.Sprintf("%d", i)
				}
				fr.obligeClause(exit, "post", lbl+sfx, penv, e, nil)
			}
			if c.HasMod {
				P.frameObligations(ex, fr, c, env, st0, exit)
			}
		}
		for _, ic := range ifcs {
			e2 := ex.newEnv(exit, st0, fr)
			e2.pkg = contractPkg(ic.Func)
			e2.vars = ifEnvVars(ic)
			for i, n := range contractResultNames(ic, fn.Signature) {
				e2.vars[n] = results[i]
			}
			for i, e := range ic.Ensures {
				lbl := e.Label
				if lbl == "" {
					lbl = fmt.Sprintf("%d", i)
				}
				fr.obligeClause(exit, "iface", strings.TrimPrefix(ic.Func, "iface:")+"/"+lbl+sfx, e2, e, nil)
			}
		}
		// type invariants of modified receivers/params at exit
		ex.invSuffix = sfx
		for i, p := range fn.Params {
			P.checkTypeInv(ex, fr, exit, params[i], p.Type())
		}
		for i, r := range results {
			if isPointer(r.T) && len(r.L) > 0 {
				P.checkTypeInv(ex, fr, exit, r, fn.Signature.Results().At(i).Type())
			}
		}
		ex.invSuffix = ""
	}
	// run
	fr, exit, results := ex.runFunc(fn, params, free, start, false, 0)
	ex.onReturn = nil
	dummy.vals = fr.vals
	res.Loops = len(fr.loops)
	for _, li := range fr.loops {
		if len(li.candsUsed) > 0 {
			if res.AutoInv == nil {
				res.AutoInv = map[string][]string{}
			}
			for _, cnd := range li.candsUsed {
				res.AutoInv[fr.loopKey(li)] = append(res.AutoInv[fr.loopKey(li)], cnd.label)
			}
		}
	}
	if exit == nil {
		ex.note("no reachable return")
		res.Obls = ex.obls
		return res
	}
	// cover: exit reachable
	cov := &Obligation{Name: funcKey(fn) + "#cover[exit]", Kind: "cover", Fn: funcKey(fn), Mark: ex.vc.mark(), Goal: Not(exit.reach), vc: ex.vc}
	ex.covers = append(ex.covers, cov)
	// cover: every return of the constant nil error ("success") must be reachable too; a
	// contradictory assumption that only kills the success paths would otherwise make every
	// "err == nil ==> ..." clause hold vacuously
	for i, rr := range fr.rets {
		if n := len(rr.vals); n > 0 && types.Identical(fn.Signature.Results().At(n-1).Type(), errType) && rr.constNilErr && rr.st != nil {
			ex.covers = append(ex.covers, &Obligation{Name: fmt.Sprintf("%s#cover[return%d@%s]", funcKey(fn), i+1, P.pos(rr.pos)), Kind: "cover", Fn: funcKey(fn), Mark: ex.vc.mark(), Goal: Not(rr.st.reach), vc: ex.vc})
		}
	}
	if !perReturn {
		checkExit(fr, exit, results, "")
	}
	if opts != nil && opts.Extra != nil {
		opts.Extra(ex, fr, exit, results, penv)
	}
	res.Obls = ex.obls
	return res
}

func safeEval(env *SpecEnv, c Clause) (t Term) {
	defer func() {
		if r := recover(); r != nil {
			if se, ok := r.(specErr); ok {
				panic(unsupported{fmt.Sprintf("contract error at %s: %s (in %q)", c.Where, se.msg, c.Src)})
			}
			panic(r)
		}
	}()
	return env.evalBool(c.E)
}


// invTargets lists (pointer value, type name, clauses) for a pointer-typed
// value: the pointee type's own invariants plus those of embedded structs.
type invTarget struct {
	v  Val
	tn string
	cs []Clause
}

func (P *Prog) invTargets(ex *Exec, v Val, t types.Type) []invTarget {
	pt, ok := under(t).(*types.Pointer)
	if !ok || len(v.L) == 0 {
		return nil
	}
	var out []invTarget
	var walk func(v Val, el types.Type, depth int)
	walk = func(v Val, el types.Type, depth int) {
		tn := typeName(el)
		if cs := P.db.TypeInv[tn]; len(cs) > 0 {
			out = append(out, invTarget{v, tn, cs})
		}
		st, ok := under(el).(*types.Struct)
		if !ok || depth > 6 {
			return
		}
		for i := 0; i < st.NumFields(); i++ {
			f := st.Field(i)
			if f.Embedded() && isStruct(f.Type()) {
				loc := ex.ptrLoc(v)
				loc.Path += "." + f.Name()
				walk(Val{T: types.NewPointer(f.Type()), L: loc.Idx, P: &loc}, f.Type(), depth+1)
			}
		}
	}
	walk(v, pt.Elem(), 0)
	return out
}

func (P *Prog) assumeTypeInv(ex *Exec, st *State, v Val, t types.Type, fr *Frame) {
	for _, it := range P.invTargets(ex, v, t) {
		env := ex.newEnv(st, st, fr)
		env.pkg = it.tn[:strings.Index(it.tn, ".")]
		env.vars["this"] = it.v
		for _, c := range it.cs {
			ex.vc.assert(Implies(Ne(v.L[0], Int(0)), safeEval(env, c)))
		}
	}
}

// assumeTypeInvAt is assumeTypeInv guarded by the state's reach condition.
func (P *Prog) assumeTypeInvAt(ex *Exec, st *State, v Val, t types.Type, fr *Frame) {
	for _, it := range P.invTargets(ex, v, t) {
		env := ex.newEnv(st, st, fr)
		env.pkg = it.tn[:strings.Index(it.tn, ".")]
		env.vars["this"] = it.v
		for _, c := range it.cs {
			ex.vc.assert(Implies(And(st.reach, Ne(v.L[0], Int(0))), safeEval(env, c)))
		}
	}
}

func (P *Prog) checkTypeInv(ex *Exec, fr *Frame, st *State, v Val, t types.Type) {
	for _, it := range P.invTargets(ex, v, t) {
		env := ex.newEnv(st, ex.entry, fr)
		env.pkg = it.tn[:strings.Index(it.tn, ".")]
		if fr != nil && fr.fn != nil && len(fr.vals) > 0 {
			fr.bindTopVars(env) // parameters are visible to per-function cuts
		}
		env.vars["this"] = it.v
		for i, c := range it.cs {
			lbl := c.Label
			if lbl == "" {
				lbl = fmt.Sprintf("%d", i)
			}
			vv := v
			cc := c
			if ex.topC != nil && ex.topC.InvCuts != nil {
				if cuts, ok := ex.topC.InvCuts[it.tn+"/"+lbl]; ok {
					cc.Cuts = append(append([]SExpr{}, c.Cuts...), cuts...)
				}
			}
			fr.obligeClause(st, "typeinv", it.tn+"/"+lbl+ex.invSuffix, env, cc, func(t Term) Term { return Implies(Ne(vv.L[0], Int(0)), t) })
		}
	}
}

// frameObligations: every heap the function may write (inferred) but that its
// contract does not list must be unchanged on pre-existing objects.
func (P *Prog) frameObligations(ex *Exec, fr *Frame, c *Contract, env *SpecEnv, st0, exit *State) {
	keys := P.modset(fr.fn)
	whole := map[string]bool{}
	targets := map[string][][]Term{}
	ranges := map[string][][3]Term{}
	wholeRows := map[string]bool{}
	var starRefs []Term
	var starTypes []types.Type
	var starLocs []*Loc
	for _, m := range c.Modifies {
		if m.Whole {
			whole[m.Key] = true
			continue
		}
		if m.Star {
			sv := env.eval(m.E)
			starRefs = append(starRefs, refOf(sv))
			starTypes = append(starTypes, sv.T)
			starLocs = append(starLocs, sv.P)
			continue
		}
		for _, tl := range env.evalLocs(m.E) {
			for _, h := range tl.heaps {
				targets[h.Name] = append(targets[h.Name], tl.idx)
				if tl.rng != nil {
					ranges[h.Name] = append(ranges[h.Name], [3]Term{tl.idx[0], tl.rng[0], tl.rng[1]})
				} else if len(tl.idx) == 1 {
					wholeRows[h.Name+"|"+tl.idx[0].S] = true
				}
			}
		}
	}
	var names []string
	for n := range ex.heaps {
		names = append(names, n)
	}
	sort.Strings(names)
	for _, n := range names {
		h := ex.heaps[n]
		if !(keys[h.Key] || keys["*"]) || whole[h.Key] {
			continue
		}
		if strings.HasPrefix(h.Key, "K:") || strings.HasPrefix(h.Key, "CH:") {
			continue
		}
		old, nw := st0.get(h), exit.get(h)
		if old.S == nw.S {
			continue
		}
		var goal Term
		if h.Dim == 0 {
			if len(targets[n]) > 0 {
				continue
			}
			goal = Eq(nw, old)
		} else {
			r := Term{"fr", SInt}
			conds := []Term{Le(r, st0.alloc), Ge(r, Int(1))}
			rowOnly := true
			for _, idx := range targets[n] {
				if len(idx) == 2 {
					rowOnly = false
				}
			}
			if h.Dim == 2 && !rowOnly {
				// element-level targets
				j := Term{"fj", SInt}
				var ex2 []Term
				for _, idx := range targets[n] {
					if len(idx) == 2 {
						ex2 = append(ex2, Not(And(Eq(r, idx[0]), Eq(j, idx[1]))))
					} else {
						ex2 = append(ex2, Ne(r, idx[0]))
					}
				}
				goal = Forall([]string{"fr", "fj"}, Implies(And(append(conds, ex2...)...), Eq(Select(Select(nw, r), j), Select(Select(old, r), j))))
			} else {
				for _, idx := range targets[n] {
					conds = append(conds, Ne(r, idx[0]))
				}
				if strings.HasPrefix(n, "H$") {
					for si, sr := range starRefs {
						if P.starAffectsLoc(h, starTypes[si], starLocs[si]) {
							conds = append(conds, Ne(r, sr))
						}
					}
				}
				goal = Forall([]string{"fr"}, Implies(And(conds...), Eq(Select(nw, r), Select(old, r))))
			}
		}
		fr.oblige(exit, "frame", h.Name, goal, 0)
		// elems(s) targets: within the row only the elements of s may have changed
		if h.Dim == 2 {
			byRow := map[string][][3]Term{}
			var order []string
			for _, rg := range ranges[n] {
				if wholeRows[n+"|"+rg[0].S] {
					continue
				}
				if _, ok := byRow[rg[0].S]; !ok {
					order = append(order, rg[0].S)
				}
				byRow[rg[0].S] = append(byRow[rg[0].S], rg)
			}
			for _, rk := range order {
				j := Term{"fj", SInt}
				var outside []Term
				for _, rg := range byRow[rk] {
					outside = append(outside, Or(Lt(j, rg[1]), Ge(j, Add(rg[1], rg[2]))))
				}
				row := byRow[rk][0][0]
				fr.oblige(exit, "frame", h.Name+"/outside-elems", Forall([]string{"fj"}, Implies(And(append([]Term{Le(row, st0.alloc)}, outside...)...), Eq(Select(Select(nw, row), j), Select(Select(old, row), j)))), 0)
			}
		}
	}
}

// ---------------------------------------------------------------------------

func (P *Prog) solveAll(obls []*Obligation, opts *VerifyOpts) {
	var wg sync.WaitGroup
	for _, o := range obls {
		if opts.Filter != nil && !opts.Filter(o) {
			continue
		}
		wg.Add(1)
		go func(o *Obligation) {
			defer wg.Done()
			o.Res = solveObligation(o, opts.OutDir, opts.Timeout)
		}(o)
	}
	wg.Wait()
}

// verifyFunc builds and discharges the VC of one function, running the
// Houdini loop for inferred invariants first when needed.
func (P *Prog) verifyFunc(fn *ssa.Function, opts *VerifyOpts) *FuncResult {
	start := time.Now()
	key := funcKey(fn)
	if opts.Houdini {
		P.houdiniDeps(fn, opts, map[*ssa.Function]bool{})
	}
	res := P.buildVC(fn, opts, false)
	if res.Unsupported == "" && !opts.NoSolve {
		P.solveAll(res.Obls, opts)
		// cover
		res.CoverOK = true
		for _, c := range res.ex.covers {
			r := solveCover(c, opts.OutDir)
			if res.CoverRes == "" || r.Status == "unsat" {
				res.CoverRes = r.Status
			}
			if r.Status == "unsat" {
				res.CoverOK = false
				res.CoverRes = "UNREACHABLE " + c.Name
			}
		}
	}
	_ = key
	res.Time = time.Since(start).Seconds()
	return res
}

func (P *Prog) hasUnannotatedLoops(fn *ssa.Function) bool {
	c := P.contractFor(fn)
	n := 0
	for _, b := range fn.Blocks {
		for _, s := range b.Succs {
			if s.Dominates(b) {
				n++
			}
		}
	}
	if n == 0 {
		return false
	}
	_ = c
	// declared invariants are complemented by inferred ones (frames, bounds)
	return true
}

// houdiniDeps runs invariant inference bottom-up over the in-repo callees
// that would be inlined (no contract) and contain unannotated loops.
func (P *Prog) houdiniDeps(fn *ssa.Function, opts *VerifyOpts, visited map[*ssa.Function]bool) {
	if visited[fn] {
		return
	}
	visited[fn] = true
	for _, b := range fn.Blocks {
		for _, in := range b.Instrs {
			c, ok := in.(ssa.CallInstruction)
			if !ok {
				continue
			}
			g := c.Common().StaticCallee()
			if g == nil || !P.inRepo[g] || g.Blocks == nil || P.contractFor(g) != nil {
				continue
			}
			P.houdiniDeps(g, opts, visited)
		}
	}
	if P.hasUnannotatedLoops(fn) && !P.houdiniDone[fn] {
		P.houdini(fn, opts)
	}
}

// houdini finds the largest inductive subset of candidate invariants.
func (P *Prog) houdini(fn *ssa.Function, opts *VerifyOpts) {
	if P.houdiniDone == nil {
		P.houdiniDone = map[*ssa.Function]bool{}
	}
	P.houdiniDone[fn] = true
	if P.autoInv == nil {
		P.autoInv = map[string]map[string]bool{}
	}
	// dry run to learn which heaps the function touches (frame candidates)
	P.buildVC(fn, opts, false)
	// fast path: the invariants recorded when the baseline was made. They are
	// re-proved here; only if one of them no longer holds is inference repeated.
	if P.hints != nil && !P.rebase {
		used := false
		for k, v := range P.hints {
			if strings.HasPrefix(k, funcKey(fn)+"/loop") {
				P.autoInv[k] = map[string]bool{}
				for _, l := range v {
					P.autoInv[k][l] = true
				}
				used = true
			}
		}
		if used {
			res := P.buildVC(fn, opts, false)
			ok := res.Unsupported == ""
			var cand []*Obligation
			nLabels := 0
			for _, ls := range res.AutoInv {
				nLabels += len(ls)
			}
			want := 0
			for k, v := range P.hints {
				if strings.HasPrefix(k, funcKey(fn)+"/loop") {
					want += len(v)
				}
			}
			if nLabels != want {
				ok = false // a recorded candidate no longer exists (code changed)
			}
			if ok {
				for _, o := range res.Obls {
					if o.Kind == "auto-entry" || o.Kind == "auto-keep" {
						cand = append(cand, o)
					}
				}
				var wg sync.WaitGroup
				for _, o := range cand {
					wg.Add(1)
					go func(o *Obligation) {
						defer wg.Done()
						sliced, _ := o.vc.slicedQuery(o.Mark, o.Goal)
						o.Res = solve(sliced, opts.OutDir, o.Name+".hint", 3, "z3")
						if o.Res.Status != "unsat" {
							o.Res = solve(o.vc.query(o.Mark, nil, o.Goal, false), opts.OutDir, o.Name+".hint", 10, "")
						}
					}(o)
				}
				wg.Wait()
				for _, o := range cand {
					if o.Res.Status != "unsat" {
						ok = false
					}
				}
			}
			if ok {
				return
			}
		}
	}
	// phase 1 infers the quantifier-free candidates, phase 2 adds the (quantified)
	// frame candidates on top of the survivors, so that slow frame queries cannot
	// make good bounds time out
	for phase := 1; phase <= 2; phase++ {
	P.houdiniPhase = phase
	// first run: all candidates
	var keep map[string]map[string]bool
	for iter := 0; iter < 8; iter++ {
		var res *FuncResult
		if keep == nil {
			// remove any earlier decision for this function's loops
			for k := range P.autoInv {
				if strings.HasPrefix(k, funcKey(fn)+"/loop") && !strings.HasSuffix(k, "#phase1") {
					delete(P.autoInv, k)
				}
			}
			res = P.buildVC(fn, opts, true)
		} else {
			for k, v := range keep {
				P.autoInv[k] = v
			}
			res = P.buildVC(fn, opts, false)
		}
		if res.Unsupported != "" {
			P.houdiniPhase = 0
			return
		}
		if keep == nil {
			keep = map[string]map[string]bool{}
			for lk, labels := range res.AutoInv {
				keep[lk] = map[string]bool{}
				for _, l := range labels {
					keep[lk][l] = true
				}
			}
		}
		var cand []*Obligation
		for _, o := range res.Obls {
			if o.Kind == "auto-entry" || o.Kind == "auto-keep" {
				cand = append(cand, o)
			}
		}
		// candidates that are inductive prove quickly; anything slower is dropped
		var cwg sync.WaitGroup
		for _, o := range cand {
			cwg.Add(1)
			go func(o *Obligation) {
				defer cwg.Done()
				quantified := strings.Contains(o.Label, "/frame ")
				if quantified {
					sliced, _ := o.vc.slicedQuery(o.Mark, o.Goal)
					o.Res = solve(sliced, opts.OutDir, o.Name+".cand", 2, "z3")
					if o.Res.Status == "sat" || o.Res.Status == "unknown" {
						full := o.vc.query(o.Mark, nil, o.Goal, false)
						o.Res = solve(full, opts.OutDir, o.Name+".cand", 2, "z3,z3-new")
					}
				} else {
					// bounds, typestate and parameter invariants: these decide later proofs, so
					// they get the whole pipeline
					o.Res = solveObligation(o, opts.OutDir, 10)
				}
			}(o)
		}
		cwg.Wait()
		if os.Getenv("GOVC_DEBUG") != "" {
			cnt := map[string]int{}
			for _, o := range cand {
				cnt[o.Res.Status]++
				if o.Res.Status != "unsat" {
					fmt.Fprintf(os.Stderr, "    cand %s %s %.1fs\n", o.Res.Status, o.Name, o.Res.Time)
				}
			}
			fmt.Fprintf(os.Stderr, "  houdini %s iter %d: %v\n", funcKey(fn), iter, cnt)
		}
		dropped := false
		for _, o := range cand {
			if o.Res.Status != "unsat" {
				// label: loopN/<cand>
				i := strings.Index(o.Label, "/")
				lk := fmt.Sprintf("%s/%s", funcKey(fn), o.Label[:i])
				lab := o.Label[i+1:]
				if keep[lk][lab] {
					delete(keep[lk], lab)
					dropped = true
				}
				// leaves of one value stand or fall together
				if j := strings.LastIndex(lab, "."); j > 0 && (strings.HasPrefix(lab, "keep ") || strings.HasPrefix(lab, "frame ")) {
					stem := lab[:j+1]
					for other := range keep[lk] {
						if strings.HasPrefix(other, stem) && isLeafSuffix(other[j+1:]) && isLeafSuffix(lab[j+1:]) {
							delete(keep[lk], other)
						}
					}
				}
			}
		}
		for k, v := range keep {
			P.autoInv[k] = v
		}
		if !dropped {
			break
		}
	}
	if phase == 1 {
		for k, v := range keep {
			cp := map[string]bool{}
			for l := range v {
				cp[l] = true
			}
			P.autoInv[k+"#phase1"] = cp
		}
	}
	}
	P.houdiniPhase = 0
	for k := range P.autoInv {
		if strings.HasSuffix(k, "#phase1") {
			delete(P.autoInv, k)
		}
	}
}

// selectFuncs returns in-repo functions whose key matches the regexp.
func (P *Prog) selectFuncs(pattern string) []*ssa.Function {
	re := regexp.MustCompile(pattern)
	var out []*ssa.Function
	for k, f := range P.funcs {
		if !P.inRepo[f] || f.Blocks == nil {
			continue
		}
		if re.MatchString(k) {
			out = append(out, f)
		}
	}
	sort.Slice(out, func(i, j int) bool { return funcKey(out[i]) < funcKey(out[j]) })
	return out
}

func ensureDir(d string) {
	os.MkdirAll(d, 0o755)
}

func cleanDir(d string) {
	files, _ := filepath.Glob(filepath.Join(d, "*.smt2"))
	for _, f := range files {
		os.Remove(f)
	}
}


// callContract is the contract callers may rely on at a static call of fn:
// fn's own contract plus the contracts of the interface methods it implements
// (with parameter names rewritten), since fn is verified against both.
func (P *Prog) callContract(fn *ssa.Function) *Contract {
	if P.callC == nil {
		P.callC = map[*ssa.Function]*Contract{}
	}
	if c, ok := P.callC[fn]; ok {
		return c
	}
	own := P.contractFor(fn)
	ifcs := P.ifaceContractsFor(fn)
	if len(ifcs) == 0 || fn.Synthetic != "" {
		P.callC[fn] = own
		return own
	}
	c := &Contract{Func: funcKey(fn), Kind: "func", Loops: map[int]*LoopSpec{}, Props: map[string]bool{}}
	if own != nil {
		cp := *own
		c = &cp
		c.Requires = append([]Clause{}, own.Requires...)
		c.Ensures = append([]Clause{}, own.Ensures...)
		c.Modifies = append([]ModItem{}, own.Modifies...)
	}
	realNames := contractParamNames(c, fn.Signature, false)
	realRes := contractResultNames(c, fn.Signature)
	have := map[string]bool{}
	for _, r := range c.Requires {
		have["r:"+r.Src] = true
	}
	for _, r := range c.Ensures {
		have["e:"+r.Src] = true
	}
	for _, ic := range ifcs {
		in := contractParamNames(ic, fn.Signature, true)
		ir := contractResultNames(ic, fn.Signature)
		ren := map[string]string{}
		for i := range in {
			if i < len(realNames) {
				ren[in[i]] = realNames[i]
			}
		}
		for i := range ir {
			if i < len(realRes) {
				ren[ir[i]] = realRes[i]
			}
		}
		for _, r := range ic.Requires {
			if have["r:"+r.Src] {
				continue
			}
			c.Requires = append(c.Requires, Clause{Label: r.Label, E: renameSpec(r.E, ren), Src: r.Src, Where: r.Where})
		}
		for _, r := range ic.Ensures {
			if have["e:"+r.Src] {
				continue
			}
			c.Ensures = append(c.Ensures, Clause{Label: r.Label, E: renameSpec(r.E, ren), Src: r.Src, Where: r.Where})
		}
		for _, m := range ic.Modifies {
			mm := m
			if m.E != nil {
				mm.E = renameSpec(m.E, ren)
			}
			c.Modifies = append(c.Modifies, mm)
		}
		c.HasMod = c.HasMod || ic.HasMod
		if contractPkg(c.Func) == "" {
			c.Func = funcKey(fn)
		}
	}
	P.callC[fn] = c
	return c
}

func renameSpec(e SExpr, ren map[string]string) SExpr {
	switch x := e.(type) {
	case *SIdent:
		if n, ok := ren[x.Name]; ok {
			return &SIdent{n}
		}
		return x
	case *SField:
		return &SField{renameSpec(x.X, ren), x.Name}
	case *SIndex:
		return &SIndex{renameSpec(x.X, ren), renameSpec(x.I, ren)}
	case *SUnary:
		return &SUnary{x.Op, renameSpec(x.X, ren)}
	case *SBinary:
		return &SBinary{x.Op, renameSpec(x.X, ren), renameSpec(x.Y, ren)}
	case *SCond:
		return &SCond{renameSpec(x.C, ren), renameSpec(x.A, ren), renameSpec(x.B, ren)}
	case *SQuant:
		sub := map[string]string{}
		for k, v := range ren {
			sub[k] = v
		}
		for _, v := range x.Vars {
			delete(sub, v)
		}
		return &SQuant{x.Forall, x.Vars, renameSpec(x.Body, sub)}
	case *SCall:
		n := &SCall{Fun: x.Fun, Raw: x.Raw}
		if x.Recv != nil {
			n.Recv = renameSpec(x.Recv, ren)
		}
		for _, a := range x.Args {
			if a == nil {
				n.Args = append(n.Args, nil)
			} else {
				n.Args = append(n.Args, renameSpec(a, ren))
			}
		}
		return n
	}
	return e
}


func contractUsesGhostOnThis(c *Contract) bool {
	found := false
	var walk func(e SExpr)
	walk = func(e SExpr) {
		switch x := e.(type) {
		case *SField:
			if id, ok := x.X.(*SIdent); ok && id.Name == "this" && strings.HasPrefix(x.Name, "$") {
				found = true
			}
			walk(x.X)
		case *SIndex:
			walk(x.X)
			walk(x.I)
		case *SUnary:
			walk(x.X)
		case *SBinary:
			walk(x.X)
			walk(x.Y)
		case *SCond:
			walk(x.C)
			walk(x.A)
			walk(x.B)
		case *SQuant:
			walk(x.Body)
		case *SCall:
			if x.Recv != nil {
				walk(x.Recv)
			}
			for _, a := range x.Args {
				if a != nil {
					walk(a)
				}
			}
		}
	}
	for _, r := range c.Requires {
		walk(r.E)
	}
	for _, r := range c.Ensures {
		walk(r.E)
	}
	return found
}


func isLeafSuffix(s string) bool {
	switch s {
	case "arr", "off", "len", "cap", "tag", "pl":
		return true
	}
	return false
}

// loadHints / saveHints: inferred loop invariants recorded with the baseline.
func (P *Prog) loadHints(path string) {
	data, err := os.ReadFile(path)
	if err != nil {
		return
	}
	m := map[string][]string{}
	if json.Unmarshal(data, &m) == nil {
		P.hints = m
	}
}

func (P *Prog) saveHints(path string) {
	m := map[string][]string{}
	for k, v := range P.autoInv {
		var ls []string
		for l := range v {
			ls = append(ls, l)
		}
		sort.Strings(ls)
		m[k] = ls
	}
	data, _ := json.MarshalIndent(m, "", " ")
	os.WriteFile(path, data, 0o644)
}


// solveObligation runs the staged pipeline on one obligation:
//  1. heap-sliced VC with engine-side instantiation (fast path),
//  2. full VC with engine-side instantiation,
//  3. full VC as is, whole portfolio.
// Every stage only drops or instantiates hypotheses, so "unsat" at any stage
// is a proof of the obligation; "sat" is only believed from stage 3.
// solveCover decides a reachability cover: "unsat" means the point is unreachable
// under the assumptions of the VC (vacuity). The instantiated forms only add
// consequences of the hypotheses, so an unsat answer from any of them is sound.
func solveCover(c *Obligation, outDir string) SolveResult {
	q1, _ := c.vc.instantiatedQuery(c.Mark, c.Goal, false, true)
	r := solve(q1, outDir, c.Name+".s1", 3, "z3,z3-new")
	if r.Status == "unsat" {
		return r
	}
	q3, n3 := c.vc.instantiatedQuery(c.Mark, c.Goal, false, false)
	if n3 > 0 && len(q3) < 2500000 {
		r3 := solve(q3, outDir, c.Name+".s3", 3, "z3,z3-new")
		if r3.Status == "unsat" {
			return r3
		}
		if r3.Status == "sat" {
			r = r3
		}
	}
	r4 := solve(c.vc.query(c.Mark, nil, c.Goal, false), outDir, c.Name, 3, "z3,cvc5")
	if r4.Status == "unsat" || r4.Status == "sat" {
		return r4
	}
	return r
}

// dropQuantifiedHyps removes every assertion that contains a quantifier except the last one
// (the negated goal). Returns "" if nothing was dropped.
func dropQuantifiedHyps(q string) string {
	lines := strings.Split(q, "\n")
	last := -1
	for i, l := range lines {
		if strings.HasPrefix(l, "(assert") {
			last = i
		}
	}
	var out []string
	dropped := false
	for i, l := range lines {
		if i != last && strings.HasPrefix(l, "(assert") && (strings.Contains(l, "(forall ") || strings.Contains(l, "(exists ")) {
			dropped = true
			continue
		}
		out = append(out, l)
	}
	if !dropped {
		return ""
	}
	return strings.Join(out, "\n")
}

func solveObligation(o *Obligation, outDir string, timeout int) SolveResult {
	spent := 0.0
	// stage 1: full VC, lean instantiation (only hypotheses over the goal's own variables);
	// very large VCs start with the heap-sliced form instead
	q1, _ := o.vc.instantiatedQuery(o.Mark, o.Goal, false, true)
	if len(q1) > 400000 {
		qs, _ := o.vc.instantiatedQuery(o.Mark, o.Goal, true, true)
		if len(qs) < len(q1)/2 {
			r0 := solve(qs, outDir, o.Name+".s0", 3, "z3,z3-new")
			spent += r0.Time
			if r0.Status == "unsat" {
				r0.Solver += "/s0"
				return r0
			}
		}
	}
	// stage 1a: the same query without the quantified hypotheses that remain after
	// instantiation (dropping hypotheses is sound; the instances usually suffice and the
	// ground problem is decided in milliseconds where MBQI diverges)
	if qf := dropQuantifiedHyps(q1); qf != "" {
		rq := solve(qf, outDir, o.Name+".s1g", 3, "z3-new")
		spent += rq.Time
		if rq.Status == "unsat" {
			rq.Solver += "/s1g"
			return rq
		}
	}
	r := solve(q1, outDir, o.Name+".s1", 3, "z3,z3-new")
	spent += r.Time
	if r.Status == "unsat" {
		r.Solver += "/s1"
		return r
	}
	// stage 2: heap-sliced VC, lean instantiation (large VCs with many unrelated heaps)
	q2, n2 := o.vc.instantiatedQuery(o.Mark, o.Goal, true, true)
	if len(q2) < len(q1)*3/4 {
		n2 = 1
	} else {
		n2 = 0
	}
	if n2 > 0 {
		r2 := solve(q2, outDir, o.Name+".s2", timeout, "z3,z3-new")
		spent += r2.Time
		if r2.Status == "unsat" {
			r2.Time = spent
			r2.Solver += "/s2"
			return r2
		}
	}
	// stage 3: full VC, rich instantiation (all seed terms), if it stays small
	q3, n3 := o.vc.instantiatedQuery(o.Mark, o.Goal, false, false)
	if n3 > 0 && len(q3) < 2500000 {
		r3 := solve(q3, outDir, o.Name+".s3", timeout, "z3,z3-new")
		spent += r3.Time
		if r3.Status == "unsat" {
			r3.Time = spent
			r3.Solver += "/s3"
			return r3
		}
	}
	// stage 4: the VC as generated, whole portfolio
	r4 := solve(o.vc.query(o.Mark, nil, o.Goal, false), outDir, o.Name, timeout, "")
	r4.Time += spent
	r4.Solver += "/s4"
	return r4
}

// obligeClause emits the obligation(s) for a contract clause. wrap adds the
// guard under which the clause is required (e.g. receiver non-nil).
func (fr *Frame) obligeClause(st *State, kind, label string, env *SpecEnv, c Clause, wrap func(Term) Term) {
	if wrap == nil {
		wrap = func(t Term) Term { return t }
	}
	if len(c.Cuts) > 0 {
		a, b := c.cutGoals()
		fr.oblige(st, kind, label+"/cut", wrap(safeEval(env, Clause{E: a, Src: c.Src, Where: c.Where})), 0)
		fr.oblige(st, kind, label+"/by-cut", wrap(safeEval(env, Clause{E: b, Src: c.Src, Where: c.Where})), 0)
		// both together give the clause itself
		fr.ex.vc.assert(Implies(st.reach, wrap(safeEval(env, Clause{E: c.E, Src: c.Src, Where: c.Where}))))
		return
	}
	fr.oblige(st, kind, label, wrap(safeEval(env, c)), 0)
}


// verifyLemma turns a pure lemma (requires ==> ensures over integer parameters)
// into obligations.
func (P *Prog) lemmaObligations(l *Lemma, pkg string) (*Exec, []*Obligation) {
	ex := newExec(P, nil)
	ex.constMaps = map[string]*constMap{}
	st0 := &State{ex: ex, H: map[string]Term{}, kind: 0, reach: True}
	st0.alloc = ex.vc.declare("alloc!0", SInt)
	ex.entry = st0
	env := ex.newEnv(st0, st0, &Frame{ex: ex, vals: map[ssa.Value]Val{}})
	env.pkg = pkg
	for _, p := range l.Params {
		env.vars[p] = spec1(ex.vc.declare("lp_"+p, SInt))
	}
	for _, r := range l.Requires {
		ex.vc.assert(safeEval(env, r))
	}
	var obls []*Obligation
	for i, e := range l.Ensures {
		lbl := e.Label
		if lbl == "" {
			lbl = fmt.Sprintf("%d", i)
		}
		g := safeEval(env, e)
		o := &Obligation{Name: fmt.Sprintf("%s.lemma %s#lemma[%s]", pkg, l.Name, lbl), Kind: "lemma", Fn: pkg + ".lemma " + l.Name, Label: lbl, Mark: ex.vc.mark(), Goal: g, Reach: True, vc: ex.vc}
		obls = append(obls, o)
		ex.vc.assert(g)
	}
	return ex, obls
}
