package main

// Symbolic executor over go/ssa with state merging; generates obligations.

import (
	"fmt"
	"go/token"
	"go/types"
	"sort"
	"strings"

	"golang.org/x/tools/go/ssa"
)

type Obligation struct {
	Name    string
	Kind    string
	Fn      string
	Label   string
	Pos     string
	Mark    int
	Goal    Term
	Reach   Term
	Res     SolveResult
	Claimed bool
	vc      *VC
}

type Exec struct {
	P         *Prog
	vc        *VC
	heaps     map[string]*HeapInfo
	evCounter int
	obls      []*Obligation
	top       *ssa.Function
	topC      *Contract
	notes     []string
	strs      map[string]Term
	strList   []Term
	sentinels map[string]Term
	seenFacts map[string]bool
	nameCount map[string]int
	entry     *State
	stack     []*ssa.Function
	calls     map[string]int
	trusted   map[string]bool // assumed contracts / extern specs used
	inlined   map[string]bool
	unspec    map[string]bool
	covers    []*Obligation
	topFrame  *Frame
	houdini   bool
	constMaps map[string]*constMap
	suppressFacts int
	invSuffix string
	onReturn  func(fr *Frame, st *State, vals []Val, k int)
}

func newExec(P *Prog, fn *ssa.Function) *Exec {
	resetTermTables()
	ex := &Exec{P: P, vc: newVC(), heaps: map[string]*HeapInfo{}, top: fn, strs: map[string]Term{}, sentinels: map[string]Term{},
		seenFacts: map[string]bool{}, nameCount: map[string]int{}, calls: map[string]int{}, trusted: map[string]bool{}, inlined: map[string]bool{}, unspec: map[string]bool{}}
	ex.vc.declareFun("slen", []Sort{SInt}, SInt)
	ex.vc.declareFun("sat", []Sort{SInt, SInt}, SInt)
	ex.vc.declareFun("errIs", []Sort{SInt, SInt}, SBool)
	ex.vc.assert(Eq(app(SInt, "slen", Int(0)), Int(0)))
	return ex
}

func (ex *Exec) note(format string, a ...interface{}) {
	ex.notes = append(ex.notes, fmt.Sprintf(format, a...))
}

// fact asserts an unconditional fact once.
func (ex *Exec) fact(t Term) {
	if ex.suppressFacts > 0 {
		return
	}
	if t.S == "true" || ex.seenFacts[t.S] {
		return
	}
	ex.seenFacts[t.S] = true
	ex.vc.assert(t)
}

// ---------------------------------------------------------------------------
// heaps

func (ex *Exec) heapInfo(fam, root, path string, leaf Leaf, key string, dim int) *HeapInfo {
	name := fam + "$" + root + "$" + path + leaf.Suffix
	if h, ok := ex.heaps[name]; ok {
		return h
	}
	s := leaf.Sort
	for i := 0; i < dim; i++ {
		s = arrOf(s)
	}
	h := &HeapInfo{Name: name, Sort: s, Key: key, Dim: dim, Leaf: leaf}
	ex.heaps[name] = h
	if ex.P.knownHeaps == nil {
		ex.P.knownHeaps = map[string]*HeapInfo{}
	}
	if _, ok := ex.P.knownHeaps[name]; !ok {
		ex.P.knownHeaps[name] = h
	}
	return h
}

func famDim(fam string) int {
	switch fam {
	case "G":
		return 0
	case "A", "E", "M":
		return 2
	}
	return 1
}

// leafHeaps lists the heaps of all leaves of a value of type t stored at loc.
func (ex *Exec) leafHeaps(fam, root, path string, t types.Type, key string) []*HeapInfo {
	if st, ok := under(t).(*types.Struct); ok {
		var hs []*HeapInfo
		tn := typeName(t)
		for i := 0; i < st.NumFields(); i++ {
			f := st.Field(i)
			hs = append(hs, ex.leafHeaps(fam, root, path+"."+f.Name(), f.Type(), "F:"+tn+"."+f.Name())...)
		}
		return hs
	}
	if key == "" {
		switch fam {
		case "A", "AA":
			key = "A:" + root
		case "C":
			key = "C:" + root
		case "G":
			key = "G:" + root
		default:
			key = fam + ":" + root
		}
	}
	var hs []*HeapInfo
	hfam := fam
	for _, l := range shape(t) {
		hs = append(hs, ex.heapInfo(hfam, root, path, l, key, famDim(fam)))
	}
	return hs
}

func idxSelect(h Term, idx []Term) Term {
	for _, i := range idx {
		h = Select(h, i)
	}
	return h
}

func idxStore(h Term, idx []Term, v Term) Term {
	switch len(idx) {
	case 0:
		return v
	case 1:
		return Store(h, idx[0], v)
	case 2:
		return Store(h, idx[0], Store(Select(h, idx[0]), idx[1], v))
	}
	panic("idxStore")
}

// locKeyFor returns the modset key to use for a non-struct value at loc.
func locKey(loc Loc) string {
	if loc.Fam == "H" || loc.Fam == "E" || loc.Fam == "G" {
		// path ".a.b.f": innermost struct unknown here; resolved by leafHeaps for struct walks.
		return ""
	}
	return ""
}

// fieldKeyOf computes "F:<innermost struct>.<field>" for Root+Path.
func (ex *Exec) pathKey(loc Loc, rootT types.Type) string {
	if loc.Path == "" || rootT == nil {
		return ""
	}
	parts := strings.Split(strings.TrimPrefix(loc.Path, "."), ".")
	t := rootT
	for i, p := range parts {
		st, ok := under(t).(*types.Struct)
		if !ok {
			return ""
		}
		var ft types.Type
		for j := 0; j < st.NumFields(); j++ {
			if st.Field(j).Name() == p {
				ft = st.Field(j).Type()
			}
		}
		if ft == nil {
			return ""
		}
		if i == len(parts)-1 {
			return "F:" + typeName(t) + "." + p
		}
		t = ft
	}
	return ""
}

// load reads a value of type t from loc in state st.
func (ex *Exec) load(st *State, loc Loc, t types.Type) Val {
	rootT := loc.RootT
	if isArray(t) {
		unsup("load of array value")
	}
	key := ex.pathKey(loc, rootT)
	hs := ex.leafHeaps(loc.Fam, loc.Root, loc.Path, t, key)
	v := Val{T: t}
	for _, h := range hs {
		v.L = append(v.L, idxSelect(st.get(h), loc.Idx))
	}
	ex.typed(st, v)
	return v
}

func (ex *Exec) store(st *State, loc Loc, t types.Type, v Val) {
	rootT := loc.RootT
	if isArray(t) {
		unsup("store of array value")
	}
	key := ex.pathKey(loc, rootT)
	hs := ex.leafHeaps(loc.Fam, loc.Root, loc.Path, t, key)
	if len(hs) != len(v.L) {
		panic(fmt.Sprintf("store: %d heaps vs %d leaves for %s", len(hs), len(v.L), t))
	}
	for i, h := range hs {
		nv := idxStore(st.get(h), loc.Idx, v.L[i])
		st.set(h, ex.vc.define(h.Name, nv))
	}
}

// rootType finds the Go type of a Loc's root (needed for key computation).
func (ex *Exec) rootTypeOf(ptrElem types.Type, loc Loc) types.Type {
	return nil
}

// typed asserts the machine-type facts of a (loaded / fresh) value.
func (ex *Exec) typed(st *State, v Val) {
	ls := shape(v.T)
	if len(ls) != len(v.L) {
		return
	}
	for i, l := range ls {
		x := v.L[i]
		switch l.Role {
		case "int":
			ex.fact(inRange(x, l.T))
		case "str":
			ex.fact(And(Ge(app(SInt, "slen", x), Int(0)), Le(app(SInt, "slen", x), Int(1<<48)), Implies(Eq(app(SInt, "slen", x), Int(0)), Eq(x, Int(0)))))
		case "ref", "arr":
			ex.fact(Ge(x, Int(0)))
			if st != nil {
				ex.fact(Le(x, st.alloc))
			}
		case "off":
			ex.fact(Ge(x, Int(0)))
		case "len":
			// len <= cap, arr == 0 => cap == 0
			arr, capT := v.L[i-2], v.L[i+1]
			ex.fact(And(Ge(x, Int(0)), Le(x, capT), Le(capT, Int(maxElems(l.T))), Implies(Eq(arr, Int(0)), Eq(capT, Int(0)))))
		case "tag":
			ex.fact(And(Ge(x, Int(0)), Implies(Eq(x, Int(0)), Eq(v.L[i+1], Int(0)))))
		case "pl":
			if st != nil {
				// values with methods are always boxed, so payloads of non-empty
				// interfaces are references (or negative sentinel ids)
				if it, ok := under(l.T).(*types.Interface); ok && it.NumMethods() > 0 {
					ex.fact(Le(x, st.alloc))
				}
			}
		}
	}
}

func (ex *Exec) freshVal(st *State, base string, t types.Type) Val {
	v := Val{T: t}
	for _, l := range shape(t) {
		v.L = append(v.L, ex.vc.fresh(base+l.Suffix, l.Sort))
	}
	ex.typed(st, v)
	return v
}

func zeroVal(t types.Type) Val {
	v := Val{T: t}
	for _, l := range shape(t) {
		if l.Sort == SBool {
			v.L = append(v.L, False)
		} else {
			v.L = append(v.L, Int(0))
		}
	}
	return v
}

func (ex *Exec) ptrLoc(v Val) Loc {
	if v.P != nil {
		l := *v.P
		l.Idx = v.L
		return l
	}
	return *defaultLoc(v.T, v.L[0])
}

// allocRef returns a fresh reference in st.
func (ex *Exec) allocRef(st *State, base string) Term {
	r := ex.vc.fresh(base, SInt)
	ex.vc.assert(Eq(r, Add(st.alloc, Int(1))))
	st.alloc = r
	return r
}

// ---------------------------------------------------------------------------
// strings / sentinels / tags

func (ex *Exec) strConst(s string) Term {
	if s == "" {
		return Int(0)
	}
	if t, ok := ex.strs[s]; ok {
		return t
	}
	t := ex.vc.declare(fmt.Sprintf("strc!%d", len(ex.strs)+1), SInt)
	ex.strs[s] = t
	// string constants live in a negative id space, disjoint from allocated ones
	ex.vc.assert(Eq(t, Int(int64(-(len(ex.strs))))))
	ex.vc.assert(Eq(app(SInt, "slen", t), Int(int64(len(s)))))
	if len(s) <= 40 {
		for i := 0; i < len(s); i++ {
			ex.vc.assert(Eq(app(SInt, "sat", t, Int(int64(i))), Int(int64(s[i]))))
		}
	}
	ex.strList = append(ex.strList, t)
	return t
}

func (ex *Exec) freshStr(st *State, base string) Term {
	t := ex.vc.fresh(base, SInt)
	ex.fact(And(Ge(app(SInt, "slen", t), Int(0)), Le(app(SInt, "slen", t), Int(1<<48)), Implies(Eq(app(SInt, "slen", t), Int(0)), Eq(t, Int(0)))))
	return t
}

func slen(t Term) Term     { return app(SInt, "slen", t) }
func sat(t, i Term) Term   { return app(SInt, "sat", t, i) }
func errIs(e, t Term) Term { return app(SBool, "errIs", e, t) }

// sentinel returns the constant value of an error-typed global.
func (ex *Exec) sentinel(name string) Val {
	errT := types.Universe.Lookup("error").Type()
	if t, ok := ex.sentinels[name]; ok {
		return Val{T: errT, L: []Term{Int(int64(ex.P.tagOf(sentinelType{}))), t}}
	}
	t := ex.vc.declare("sent!"+mangle(name), SInt)
	// sentinel payloads live below all allocated references
	ex.vc.assert(Eq(t, Int(int64(-1000-len(ex.sentinels)))))
	ex.vc.assert(errIs(t, t))
	for _, o := range ex.sentinels {
		ex.vc.assert(Not(errIs(t, o)))
		ex.vc.assert(Not(errIs(o, t)))
	}
	ex.vc.assert(Not(errIs(Int(0), t)))
	ex.sentinels[name] = t
	return Val{T: errT, L: []Term{Int(int64(ex.P.tagOf(sentinelType{}))), t}}
}

// all sentinels referenced by the repo are created up front so that wrap
// facts can range over them.
func (ex *Exec) initSentinels() {
	var names []string
	for n := range ex.P.errGlobals {
		names = append(names, n)
	}
	sort.Strings(names)
	for _, n := range names {
		ex.sentinel(n)
	}
}

type sentinelType struct{}

func (sentinelType) Underlying() types.Type { return sentinelType{} }
func (sentinelType) String() string         { return "$sentinelError" }

// newError creates a fresh non-nil error value that wraps the given payloads.
func (ex *Exec) newError(st *State, base string, wraps []Term, tag int) Val {
	errT := types.Universe.Lookup("error").Type()
	r := ex.allocRef(st, base)
	var names []string
	for n := range ex.sentinels {
		names = append(names, n)
	}
	sort.Strings(names)
	for _, n := range names {
		s := ex.sentinels[n]
		var ds []Term
		for _, w := range wraps {
			ds = append(ds, errIs(w, s))
		}
		ex.vc.assert(Eq(errIs(r, s), Or(ds...)))
	}
	return Val{T: errT, L: []Term{Int(int64(tag)), r}}
}

// ---------------------------------------------------------------------------
// frames

type loopInfo struct {
	header  *ssa.BasicBlock
	ordinal int
	body    map[*ssa.BasicBlock]bool
	backs   []*ssa.BasicBlock
	spec    *LoopSpec
	keys    map[string]bool
	// values at the cut
	entrySt   *State
	phiFresh  map[*ssa.Phi]Val
	cands     []Clause // surviving candidate invariants (Houdini)
	decEntry  []Term
	candsUsed []autoInv
	headSt    *State
}

type retRec struct {
	st   *State
	vals []Val
	pos  token.Pos
	// constNilErr: the last result is the constant nil (a "success" return)
	constNilErr bool
}

type Frame struct {
	// ownerVal: the struct a field function value was loaded from (bound as "owner" in its contract)
	ownerVal *Val
	selfVal  *Val
	ex      *Exec
	fn      *ssa.Function
	vals    map[ssa.Value]Val
	out     map[*ssa.BasicBlock]*State
	rets    []retRec
	inline  bool
	depth   int
	loops   map[*ssa.BasicBlock]*loopInfo
	entry   *State
	params  []Val
	free    []Val
	contract *Contract
	rangeIt map[ssa.Value]*rangeState
	callOrd map[string]int
	curBlock *ssa.BasicBlock
	includeOwnBlock bool
	ghostRes []Val
}

type rangeState struct {
	kind string // map | string
	x    Val
	pos  Term // for strings: current index cell name handled through phi-less ghost
	visited *HeapInfo
}

type Bail struct{ msg string }

func (fr *Frame) oblige(st *State, kind, label string, cond Term, pos token.Pos) {
	ex := fr.ex
	if cond.S == "true" {
		return
	}
	if fr.inline {
		ex.vc.assert(Implies(st.reach, cond))
		return
	}
	base := fmt.Sprintf("%s#%s[%s]", funcKey(fr.fn), kind, label)
	ex.nameCount[base]++
	name := base
	if ex.nameCount[base] > 1 {
		name = fmt.Sprintf("%s#%s[%s#%d]", funcKey(fr.fn), kind, label, ex.nameCount[base])
	}
	o := &Obligation{Name: name, Kind: kind, Fn: funcKey(fr.fn), Label: label, Pos: ex.P.pos(pos), Mark: ex.vc.mark(), Goal: Implies(st.reach, cond), Reach: st.reach, vc: ex.vc}
	ex.obls = append(ex.obls, o)
	ex.vc.assert(Implies(st.reach, cond))
}

func (fr *Frame) assume(st *State, cond Term) {
	fr.ex.vc.assert(Implies(st.reach, cond))
}

func exprLabel(fr *Frame, v ssa.Value) string {
	if v == nil {
		return "?"
	}
	// try to produce a stable, source-like label
	switch x := v.(type) {
	case *ssa.Parameter:
		return x.Name()
	case *ssa.FieldAddr:
		st := under(x.X.Type().(*types.Pointer).Elem()).(*types.Struct)
		return exprLabel(fr, x.X) + "." + st.Field(x.Field).Name()
	case *ssa.Field:
		st := under(x.X.Type()).(*types.Struct)
		return exprLabel(fr, x.X) + "." + st.Field(x.Field).Name()
	case *ssa.UnOp:
		if x.Op == token.MUL {
			return exprLabel(fr, x.X)
		}
		return x.Op.String() + exprLabel(fr, x.X)
	case *ssa.IndexAddr:
		return exprLabel(fr, x.X) + "[" + exprLabel(fr, x.Index) + "]"
	case *ssa.Const:
		if x.Value != nil {
			s := x.Value.ExactString()
			if len(s) > 12 {
				s = s[:12]
			}
			return s
		}
		return "nil"
	case *ssa.Global:
		return x.Name()
	case *ssa.Phi:
		if x.Comment != "" {
			return x.Comment
		}
	case *ssa.Alloc:
		if x.Comment != "" {
			return x.Comment
		}
	case *ssa.Call:
		if f := x.Call.StaticCallee(); f != nil {
			return f.Name() + "()"
		}
		if x.Call.IsInvoke() {
			return exprLabel(fr, x.Call.Value) + "." + x.Call.Method.Name() + "()"
		}
	case *ssa.Extract:
		return exprLabel(fr, x.Tuple) + fmt.Sprintf("#%d", x.Index)
	case *ssa.Convert:
		return exprLabel(fr, x.X)
	case *ssa.ChangeType:
		return exprLabel(fr, x.X)
	case *ssa.BinOp:
		return exprLabel(fr, x.X) + x.Op.String() + exprLabel(fr, x.Y)
	case *ssa.Slice:
		return exprLabel(fr, x.X) + "[:]"
	case *ssa.TypeAssert:
		return exprLabel(fr, x.X) + ".(" + typeName(x.AssertedType) + ")"
	case *ssa.FreeVar:
		return x.Name()
	case *ssa.MakeInterface:
		return exprLabel(fr, x.X)
	}
	return "t"
}

// ---------------------------------------------------------------------------

func (ex *Exec) val(fr *Frame, v ssa.Value, st *State) Val {
	switch x := v.(type) {
	case *ssa.Const:
		return ex.constVal(x, st)
	case *ssa.Global:
		name := globalName(x)
		return Val{T: x.Type(), L: nil, P: &Loc{Fam: "G", Root: name, RootT: x.Type().(*types.Pointer).Elem()}}
	case *ssa.Function:
		return Val{T: x.Type(), L: []Term{ex.fnConst(x)}}
	case *ssa.Builtin:
		unsup("builtin as value")
	}
	if r, ok := fr.vals[v]; ok {
		return r
	}
	panic(fmt.Sprintf("no value for %s (%T) in %s", v.Name(), v, fr.fn))
}

func (ex *Exec) fnConst(f *ssa.Function) Term {
	// function values: a unique negative constant per function
	name := "fn!" + mangle(funcKey(f))
	if _, ok := ex.vc.declared[name]; !ok {
		t := ex.vc.declare(name, SInt)
		ex.vc.assert(Eq(t, Int(int64(-100000-len(ex.vc.declared)))))
	}
	return Term{name, SInt}
}

func (ex *Exec) constVal(c *ssa.Const, st *State) Val {
	t := c.Type()
	if c.Value == nil {
		return zeroVal(t)
	}
	switch u := under(t).(type) {
	case *types.Basic:
		switch {
		case u.Info()&types.IsBoolean != 0:
			if c.Value.String() == "true" {
				return Val{T: t, L: []Term{True}}
			}
			return Val{T: t, L: []Term{False}}
		case u.Info()&types.IsInteger != 0:
			return Val{T: t, L: []Term{IntS(c.Value.ExactString())}}
		case u.Info()&types.IsString != 0:
			s := constantString(c)
			return Val{T: t, L: []Term{ex.strConst(s)}}
		case u.Info()&types.IsFloat != 0:
			return Val{T: t, L: []Term{ex.floatConst(c.Value.ExactString())}}
		}
	}
	unsup("constant of type %s", t)
	return Val{}
}

func (ex *Exec) floatConst(s string) Term {
	name := "flt!" + mangle(s)
	if _, ok := ex.vc.declared[name]; !ok {
		ex.vc.declare(name, SInt)
	}
	return Term{name, SInt}
}

// runFunc symbolically executes fn from state st. Returns the merged exit
// state (nil if no return is reachable) and the result values.
func (ex *Exec) runFunc(fn *ssa.Function, args []Val, free []Val, st *State, inline bool, depth int) (*Frame, *State, []Val) {
	if fn.Blocks == nil {
		unsup("no body for %s", fn)
	}
	fr := &Frame{ex: ex, fn: fn, vals: map[ssa.Value]Val{}, out: map[*ssa.BasicBlock]*State{}, inline: inline, depth: depth,
		loops: map[*ssa.BasicBlock]*loopInfo{}, params: args, free: free, rangeIt: map[ssa.Value]*rangeState{}, callOrd: map[string]int{}}
	if !inline {
		ex.topFrame = fr
		fr.contract = ex.topC
	}
	for i, p := range fn.Params {
		a := args[i]
		a.T = p.Type()
		fr.vals[p] = a
	}
	for i, fv := range fn.FreeVars {
		if i < len(free) {
			a := free[i]
			fr.vals[fv] = a
		} else {
			fr.vals[fv] = ex.freshVal(st, "free_"+fv.Name(), fv.Type())
		}
	}
	fr.entry = st
	fr.findLoops()
	order := fr.rpo()
	ex.stack = append(ex.stack, fn)
	defer func() { ex.stack = ex.stack[:len(ex.stack)-1] }()

	for _, b := range order {
		var in *State
		if b == fn.Blocks[0] {
			in = st.clone()
			in.defers = nil
			if inline {
				in.defers = nil
			}
		} else {
			var preds []*State
			var conds []Term
			for _, p := range b.Preds {
				if fr.isBack(p, b) {
					continue
				}
				ps, ok := fr.out[p]
				if !ok {
					continue // unreachable predecessor (e.g. recover block)
				}
				c := fr.edgeCond(p, b, ps)
				if c.S == "false" {
					continue
				}
				preds = append(preds, ps)
				conds = append(conds, c)
			}
			if len(preds) == 0 {
				continue
			}
			in = mergeStates(ex, preds, conds)
			// phis
			for _, instr := range b.Instrs {
				phi, ok := instr.(*ssa.Phi)
				if !ok {
					break
				}
				fr.vals[phi] = fr.phiValue(phi, b, false, in)
			}
		}
		fr.curBlock = b
		if li := fr.loops[b]; li != nil {
			in = fr.enterLoop(li, in)
		}
		cur := in
		for _, instr := range b.Instrs {
			if _, ok := instr.(*ssa.Phi); ok {
				continue
			}
			cur = fr.step(instr, cur)
			if cur == nil {
				break
			}
		}
		if cur != nil {
			fr.out[b] = cur
			for _, s := range b.Succs {
				if fr.isBack(b, s) {
					fr.closeLoop(fr.loops[s], b, cur)
				}
			}
			// exits from the middle of a loop body: the declared invariants are
			// re-established for the values at the exit (proved, then assumed)
			for _, li := range fr.loops {
				if li.spec == nil || !li.body[b] || b == li.header {
					continue
				}
				for _, s := range b.Succs {
					if !li.body[s] {
						fr.exitLoop(li, b, s, cur)
					}
				}
			}
		}
	}
	// merge returns
	if len(fr.rets) == 0 {
		return fr, nil, nil
	}
	var sts []*State
	var conds []Term
	for _, r := range fr.rets {
		sts = append(sts, r.st)
		conds = append(conds, r.st.reach)
	}
	exit := mergeStates(ex, sts, conds)
	nres := fn.Signature.Results().Len()
	res := make([]Val, nres)
	for i := 0; i < nres; i++ {
		rt := fn.Signature.Results().At(i).Type()
		if len(fr.rets) == 1 {
			res[i] = fr.rets[0].vals[i]
			res[i].T = rt
			continue
		}
		v := Val{T: rt}
		n := len(fr.rets[0].vals[i].L)
		for l := 0; l < n; l++ {
			r := fr.rets[len(fr.rets)-1].vals[i].L[l]
			for k := len(fr.rets) - 2; k >= 0; k-- {
				r = Ite(conds[k], fr.rets[k].vals[i].L[l], r)
			}
			v.L = append(v.L, ex.vc.define("ret", r))
		}
		// static pointer info must agree
		for k := range fr.rets {
			p := fr.rets[k].vals[i].P
			if p != nil && !isDefaultLoc(rt, p) {
				unsup("non-default pointer returned from %s", fn)
			}
		}
		res[i] = v
	}
	exit.defers = st.defers
	return fr, exit, res
}

func (fr *Frame) isBack(from, to *ssa.BasicBlock) bool {
	return to.Dominates(from)
}

func (fr *Frame) rpo() []*ssa.BasicBlock {
	seen := map[*ssa.BasicBlock]bool{}
	var post []*ssa.BasicBlock
	var dfs func(b *ssa.BasicBlock)
	dfs = func(b *ssa.BasicBlock) {
		seen[b] = true
		for _, s := range b.Succs {
			if fr.isBack(b, s) || seen[s] {
				continue
			}
			dfs(s)
		}
		post = append(post, b)
	}
	dfs(fr.fn.Blocks[0])
	for i, j := 0, len(post)-1; i < j; i, j = i+1, j-1 {
		post[i], post[j] = post[j], post[i]
	}
	return post
}

func (fr *Frame) findLoops() {
	var headers []*ssa.BasicBlock
	for _, b := range fr.fn.Blocks {
		for _, s := range b.Succs {
			if fr.isBack(b, s) {
				li := fr.loops[s]
				if li == nil {
					li = &loopInfo{header: s, body: map[*ssa.BasicBlock]bool{s: true}}
					fr.loops[s] = li
					headers = append(headers, s)
				}
				li.backs = append(li.backs, b)
				// natural loop body
				var work []*ssa.BasicBlock
				if !li.body[b] {
					li.body[b] = true
					work = append(work, b)
				}
				for len(work) > 0 {
					x := work[len(work)-1]
					work = work[:len(work)-1]
					for _, p := range x.Preds {
						if !li.body[p] {
							li.body[p] = true
							work = append(work, p)
						}
					}
				}
			}
		}
	}
	sort.Slice(headers, func(i, j int) bool { return headers[i].Index < headers[j].Index })
	for i, h := range headers {
		li := fr.loops[h]
		li.ordinal = i
		if fr.contract != nil && !fr.inline {
			li.spec = fr.contract.Loops[i]
		} else if c := fr.ex.P.contractFor(fr.fn); c != nil {
			li.spec = c.Loops[i]
		}
		li.keys = map[string]bool{}
		for b := range li.body {
			for _, in := range b.Instrs {
				fr.ex.P.instrKeys(in, li.keys)
				if c, ok := in.(ssa.CallInstruction); ok {
					for _, g := range fr.ex.P.staticCallees(c.Common(), li.keys) {
						for k := range fr.ex.P.modset(g) {
							li.keys[k] = true
						}
					}
				}
			}
		}
	}
}

func (fr *Frame) edgeCond(from, to *ssa.BasicBlock, ps *State) Term {
	last := from.Instrs[len(from.Instrs)-1]
	if iff, ok := last.(*ssa.If); ok {
		c := fr.ex.val(fr, iff.Cond, ps).one()
		if from.Succs[0] == to && from.Succs[1] == to {
			return ps.reach
		}
		if from.Succs[0] == to {
			return fr.ex.vc.define("edge", And(ps.reach, c))
		}
		return fr.ex.vc.define("edge", And(ps.reach, Not(c)))
	}
	return ps.reach
}

// phiValue computes the phi for edges (non-back edges if back==false).
func (fr *Frame) phiValue(phi *ssa.Phi, b *ssa.BasicBlock, back bool, in *State) Val {
	ex := fr.ex
	type inc struct {
		v Val
		c Term
	}
	var incs []inc
	for i, p := range b.Preds {
		if fr.isBack(p, b) != back {
			continue
		}
		ps, ok := fr.out[p]
		if !ok {
			continue
		}
		c := fr.edgeCond(p, b, ps)
		if c.S == "false" {
			continue
		}
		incs = append(incs, inc{ex.val(fr, phi.Edges[i], ps), c})
	}
	if len(incs) == 0 {
		return ex.freshVal(in, "phi", phi.Type())
	}
	res := Val{T: phi.Type()}
	if isPointer(phi.Type()) {
		l0 := ex.ptrLoc(incs[0].v)
		for _, ic := range incs[1:] {
			if !ex.ptrLoc(ic.v).sameStatic(l0) {
				unsup("phi of pointers with different static locations in %s", fr.fn)
			}
		}
		lc := l0
		res.P = &lc
	}
	n := len(incs[0].v.L)
	for l := 0; l < n; l++ {
		r := incs[len(incs)-1].v.L[l]
		for k := len(incs) - 2; k >= 0; k-- {
			r = Ite(incs[k].c, incs[k].v.L[l], r)
		}
		name := "phi"
		if phi.Comment != "" {
			name = "phi_" + phi.Comment
		}
		res.L = append(res.L, ex.vc.define(name, r))
	}
	return res
}


var goSizes = types.SizesFor("gc", "amd64")

// maxElems: the largest element count a slice of this type can have
// (runtime maxAlloc = 2^48 bytes on amd64).
func maxElems(sliceT types.Type) int64 {
	sz := int64(1)
	if sl, ok := under(sliceT).(*types.Slice); ok {
		sz = goSizes.Sizeof(sl.Elem())
	}
	if sz <= 0 {
		sz = 1
	}
	return (int64(1) << 48) / sz
}


// heapTyping asserts, for a heap version that is not built from an older one
// (entry state, havoc), that every reference stored in it has been allocated.
// Loads under quantifiers rely on this (ground loads get the fact directly).
func (ex *Exec) heapTyping(h *HeapInfo, t Term, alloc Term) {
	if h.Dim != 1 || h.Leaf.Sort != SInt {
		return // rows of 2-d heaps are typed by explicit allocated() clauses where needed
	}
	role := h.Leaf.Role
	ok := role == "ref" || role == "arr"
	if role == "pl" && h.Leaf.T != nil {
		if it, isI := under(h.Leaf.T).(*types.Interface); isI && it.NumMethods() > 0 {
			ok = true
		}
	}
	if !ok {
		return
	}
	r := Term{"tr", SInt}
	if h.Dim == 1 {
		ex.vc.assert(Forall([]string{"tr"}, Le(Select(t, r), alloc), Select(t, r)))
		return
	}
	i := Term{"ti", SInt}
	ex.vc.assert(Forall([]string{"tr", "ti"}, Le(Select(Select(t, r), i), alloc), Select(Select(t, r), i)))
}
