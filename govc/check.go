package main

// Property checks: selection of functions and obligations per property,
// baselines, known findings, evidence, VIOLATION / KNOWN-FINDING lines.

import (
	"encoding/json"
	"flag"
	"fmt"
	"os"
	"path/filepath"
	"regexp"
	"sort"
	"strconv"
	"strings"
	"sync"
	"time"

	"golang.org/x/tools/go/ssa"
)

type Property struct {
	ID    string
	Title string
	// Funcs: regexps over function keys; the functions under contract.
	Funcs []string
	// Exclude: regexps of function keys never verified for this property.
	Exclude []string
	// Claim decides whether an obligation belongs to this property's claim.
	Claim func(o *Obligation) bool
	// Setup installs hooks / options before VC generation.
	Setup func(P *Prog, opts *VerifyOpts, tier string)
	// After runs extra (non-VC) parts of the check, e.g. bounded islands.
	After func(P *Prog, rep *Report, tier string)
	Notes []string
	// Lemmas: regexps over "<pkg>.<lemma name>" of pure lemmas belonging to the property.
	Lemmas []string
	// Assumptions listed in the evidence.
	Assumptions []string
	Pkgs        []string
	// Level: evidence level category (default "proof"); "other" where the decisive part of
	// the claim is a bounded island
	Level string
}

type Finding struct {
	Kind       string // finding | fixed
	Property   string
	Obligation string
	Text       string
}

type OblReport struct {
	Name    string  `json:"name"`
	Kind    string  `json:"kind"`
	Pos     string  `json:"pos,omitempty"`
	Status  string  `json:"status"`
	Solver  string  `json:"solver,omitempty"`
	Time    float64 `json:"time_s"`
	Claimed bool    `json:"claimed"`
}

type Bounded struct {
	Name        string   `json:"name"`
	Bound       string   `json:"bound"`
	Evaluations int      `json:"evaluations"`
	Distinct    int      `json:"distinct_nontrivial,omitempty"`
	Result      string   `json:"result"`
	Samples     []string `json:"samples,omitempty"`
}

type Report struct {
	// replay bookkeeping (parser replay harness runs once per package type)
	replayTried map[string]bool
	replayFound map[string][]string
	replayCmd   map[string]string
	Prop        *Property
	Tier        string
	Seed        int
	Start       time.Time
	Funcs       []*FuncResult
	Outside     []string
	Violations  []string // lines
	Known       []string
	Obligations int
	Discharged  int
	Unclaimed   []string
	BySolver    map[string]int
	SolverTime  float64
	Trusted     map[string]bool
	Unspec      map[string]bool
	Bounded     []Bounded
	Samples     []interface{}
	NotesOut    []string
	FuncsUnder  []string
	ExtraViol   int
	MissingBase []string
}

const verifDir = "/verif"

func loadFindings() []Finding {
	data, err := os.ReadFile(filepath.Join(verifDir, "known_findings.txt"))
	if err != nil {
		return nil
	}
	var out []Finding
	re := regexp.MustCompile(`^(finding|fixed):\s+property=(\S+)\s+(?:obligation=(\S+)\s+)?(.*)$`)
	for _, l := range strings.Split(string(data), "\n") {
		l = strings.TrimSpace(l)
		if l == "" || strings.HasPrefix(l, "#") {
			continue
		}
		m := re.FindStringSubmatch(l)
		if m == nil {
			continue
		}
		out = append(out, Finding{Kind: m[1], Property: m[2], Obligation: m[3], Text: m[4]})
	}
	return out
}

func loadNameSet(path string) map[string]bool {
	data, err := os.ReadFile(path)
	if err != nil {
		return nil
	}
	m := map[string]bool{}
	for _, l := range strings.Split(string(data), "\n") {
		l = strings.TrimSpace(l)
		if l != "" && !strings.HasPrefix(l, "#") {
			m[l] = true
		}
	}
	return m
}

func cmdCheck(args []string) {
	fs := flag.NewFlagSet("check", flag.ExitOnError)
	tier := fs.String("tier", "quick", "quick|thorough")
	repo := fs.String("repo", "/repo", "repository")
	rebase := fs.Bool("rebaseline", false, "rewrite the baseline from this run (maintenance only)")
	verbose := fs.Bool("v", false, "verbose")
	if len(args) == 0 {
		fmt.Fprintln(os.Stderr, "usage: govc check <ID> [--tier quick|thorough]")
		os.Exit(2)
	}
	id := args[0]
	fs.Parse(args[1:])
	if t := os.Getenv("VERIF_TIER"); t != "" && *tier == "quick" {
		*tier = t
	}
	seed := 0
	if s := os.Getenv("VERIF_SEED"); s != "" {
		seed, _ = strconv.Atoi(s)
	}
	prop := properties[id]
	if prop == nil {
		fmt.Fprintln(os.Stderr, "unknown property", id)
		os.Exit(2)
	}
	rep := runProperty(prop, *repo, *tier, seed, *rebase, *verbose)
	code := rep.finish(*rebase)
	os.Exit(code)
}

func runProperty(prop *Property, repo, tier string, seed int, rebase, verbose bool) *Report {
	rep := &Report{Prop: prop, Tier: tier, Seed: seed, Start: time.Now(), BySolver: map[string]int{}, Trusted: map[string]bool{}, Unspec: map[string]bool{}}
	pk := prop.Pkgs
	if len(pk) == 0 {
		pk = []string{"./..."}
	}
	P, err := loadProg(repo, pk, []string{filepath.Join(verifDir, "specs")})
	if err != nil {
		// fail closed: the tree does not load or contracts do not bind
		rep.failClosed("load", err.Error())
		return rep
	}
	outDir := filepath.Join(verifDir, "out", prop.ID)
	os.RemoveAll(outDir)
	ensureDir(outDir)
	timeout := 8
	if tier == "thorough" {
		timeout = 60
	}
	opts := &VerifyOpts{Timeout: timeout, OutDir: outDir, Houdini: true, NoSolve: true}
	if prop.Setup != nil {
		prop.Setup(P, opts, tier)
	}
	// functions
	seen := map[*ssa.Function]bool{}
	var fns []*ssa.Function
	excl := func(k string) bool {
		for _, e := range prop.Exclude {
			if regexp.MustCompile(e).MatchString(k) {
				return true
			}
		}
		return false
	}
	for _, pat := range prop.Funcs {
		matched := P.selectFuncs(pat)
		if len(matched) == 0 {
			rep.failClosed("contract target missing", "no function matches "+pat)
		}
		for _, f := range matched {
			if f.Synthetic != "" && len(P.ifaceContractsFor(f)) == 0 {
				// wrappers are inlined at their call sites; standalone they only matter
				// when they carry an interface obligation
				continue
			}
			if !seen[f] && !excl(funcKey(f)) {
				seen[f] = true
				fns = append(fns, f)
			}
		}
	}
	sort.Slice(fns, func(i, j int) bool { return funcKey(fns[i]) < funcKey(fns[j]) })
	// phase 1: invariant inference for unannotated loops (sequential; needs solver)
	hv := map[*ssa.Function]bool{}
	tH := time.Now()
	hintPath := filepath.Join(verifDir, "baseline", prop.ID+".autoinv.json")
	P.rebase = rebase
	P.loadHints(hintPath)
	for _, fn := range fns {
		o2 := *opts
		o2.NoSolve = false
		t0 := time.Now()
		P.houdiniDeps(fn, &o2, hv)
		if d := time.Since(t0).Seconds(); d > 3 && verbose {
			fmt.Printf("  houdini %s: %.1fs\n", funcKey(fn), d)
		}
	}
	rep.NotesOut = append(rep.NotesOut, fmt.Sprintf("invariant inference: %.1fs", time.Since(tH).Seconds()))
	if rebase {
		ensureDir(filepath.Join(verifDir, "baseline"))
		P.saveHints(hintPath)
	}
	tB := time.Now()
	// phase 2: build all VCs
	var all []*Obligation
	for _, fn := range fns {
		res := P.buildVC(fn, opts, false)
		rep.Funcs = append(rep.Funcs, res)
		if res.Unsupported != "" {
			rep.Outside = append(rep.Outside, res.Fn+": "+res.Unsupported)
			continue
		}
		rep.FuncsUnder = append(rep.FuncsUnder, res.Fn)
		for _, t := range res.Trusted {
			rep.Trusted[t] = true
		}
		for _, t := range res.Unspec {
			rep.Unspec[t] = true
		}
		for _, o := range res.Obls {
			o.Claimed = prop.Claim == nil || prop.Claim(o)
			all = append(all, o)
		}
	}
	// pure lemmas
	for _, pat := range prop.Lemmas {
		re := regexp.MustCompile(pat)
		found := false
		for _, l := range P.db.Lemmas {
			if !re.MatchString(l.Pkg + "." + l.Name) {
				continue
			}
			found = true
			func() {
				defer func() {
					if r := recover(); r != nil {
						rep.Outside = append(rep.Outside, fmt.Sprintf("lemma %s: %v", l.Name, r))
					}
				}()
				_, obls := P.lemmaObligations(l, l.Pkg)
				for _, o := range obls {
					o.Claimed = true
					all = append(all, o)
				}
				rep.FuncsUnder = append(rep.FuncsUnder, "lemma "+l.Pkg+"."+l.Name)
			}()
		}
		if !found {
			rep.failClosed("contract target missing", "no lemma matches "+pat)
		}
	}
	// phase 3: solve (claimed obligations and auto-invariant support obligations)
	var work []*Obligation
	for _, o := range all {
		if o.Claimed || o.Kind == "auto-entry" || o.Kind == "auto-keep" {
			work = append(work, o)
		}
	}
	rep.NotesOut = append(rep.NotesOut, fmt.Sprintf("VC generation: %.1fs", time.Since(tB).Seconds()))
	tS := time.Now()
	solveStaged(work, outDir, timeout)
	rep.NotesOut = append(rep.NotesOut, fmt.Sprintf("solving: %.1fs", time.Since(tS).Seconds()))
	// covers (vacuity): every function's exit must be reachable
	var cwg sync.WaitGroup
	var cmu sync.Mutex
	for _, fr := range rep.Funcs {
		if fr.Unsupported != "" || fr.ex == nil {
			continue
		}
		fr.CoverOK = true
		for _, c := range fr.ex.covers {
			cwg.Add(1)
			go func(fr *FuncResult, c *Obligation) {
				defer cwg.Done()
				r := solveCover(c, outDir)
				cmu.Lock()
				if r.Status == "unsat" {
					fr.CoverRes = "UNREACHABLE " + c.Name
					fr.CoverOK = false
				} else if fr.CoverRes == "" {
					fr.CoverRes = r.Status
				}
				cmu.Unlock()
			}(fr, c)
		}
	}
	cwg.Wait()
	for _, fr := range rep.Funcs {
		if fr.Unsupported == "" && fr.ex != nil && len(fr.ex.covers) > 0 && !fr.CoverOK {
			rep.failClosed("vacuous", "preconditions of "+fr.Fn+" are contradictory or a success return is unreachable: "+fr.CoverRes)
		}
	}
	rep.classify(all, rebase, verbose)
	if prop.After != nil {
		prop.After(P, rep, tier)
	}
	return rep
}

// solveStaged: a fast z3 pass, then the full portfolio on what is left.
func solveStaged(obls []*Obligation, outDir string, timeout int) {
	var wg sync.WaitGroup
	for _, o := range obls {
		wg.Add(1)
		go func(o *Obligation) {
			defer wg.Done()
			r := solveObligation(o, outDir, timeout)
			o.Res = r
		}(o)
	}
	wg.Wait()
}

func (rep *Report) failClosed(what, detail string) {
	path := rep.writeReplay("failclosed-"+what, map[string]interface{}{"obligation": what, "detail": detail})
	rep.Violations = append(rep.Violations, fmt.Sprintf("VIOLATION property=%s replay=%s no-failing-input-found", rep.Prop.ID, path))
	rep.NotesOut = append(rep.NotesOut, what+": "+detail)
}

func (rep *Report) writeReplay(name string, content map[string]interface{}) string {
	dir := filepath.Join(verifDir, "replays", rep.Prop.ID)
	ensureDir(dir)
	fn := mangle(name)
	if len(fn) > 150 {
		fn = fn[:130] + fmt.Sprintf("_%x", hashStr(name))
	}
	path := filepath.Join(dir, fn+".json")
	content["property"] = rep.Prop.ID
	data, _ := json.MarshalIndent(content, "", " ")
	os.WriteFile(path, data, 0o644)
	return path
}

func (rep *Report) classify(all []*Obligation, rebase, verbose bool) {
	id := rep.Prop.ID
	findings := loadFindings()
	known := map[string]Finding{}
	for _, f := range findings {
		if f.Kind == "finding" && f.Property == id {
			known[f.Obligation] = f
		}
	}
	basePath := filepath.Join(verifDir, "baseline", id+"."+rep.Tier+".txt")
	unclPath := filepath.Join(verifDir, "baseline", id+"."+rep.Tier+".unclaimed")
	slowLimit := 2.7
	if rep.Tier == "thorough" {
		slowLimit = 20
	}
	base := loadNameSet(basePath)
	uncl := loadNameSet(unclPath)
	unclFK := map[string]bool{}
	for n := range uncl {
		unclFK[fnKindOf(n)] = true
	}
	var newBase, newUncl []string
	seenNames := map[string]bool{}
	var samples []interface{}
	for _, o := range all {
		if !o.Claimed {
			continue
		}
		seenNames[o.Name] = true
		rep.SolverTime += o.Res.Time
		if o.Res.Status == "unsat" && rebase && o.Res.Time > slowLimit {
			// too slow to be claimed at this tier (claim threshold: a third of the timeout)
			newUncl = append(newUncl, o.Name)
			rep.Unclaimed = append(rep.Unclaimed, fmt.Sprintf("%s (discharged in %.1fs, above the claim threshold)", o.Name, o.Res.Time))
			continue
		}
		if o.Res.Status == "unsat" && !rebase && uncl[o.Name] {
			rep.Unclaimed = append(rep.Unclaimed, fmt.Sprintf("%s (discharged in %.1fs, not claimed at this tier)", o.Name, o.Res.Time))
			continue
		}
		if o.Res.Status == "unsat" {
			rep.Obligations++
			rep.Discharged++
			rep.BySolver[o.Res.Solver]++
			newBase = append(newBase, o.Name)
			if len(samples) < 6 && (o.Kind == "post" || o.Kind == "iface" || o.Kind == "inv-keep" || len(samples) < 2) {
				samples = append(samples, map[string]interface{}{"obligation": o.Name, "pos": o.Pos, "solver": o.Res.Solver, "time_s": o.Res.Time, "smt_bytes": len(o.vc.query(o.Mark, nil, o.Goal, false))})
			}
			continue
		}
		// not discharged
		if kf, ok := known[o.Name]; ok {
			rep.Known = append(rep.Known, fmt.Sprintf("KNOWN-FINDING: property=%s %s (%s: %s)", id, kf.Text, o.Name, o.Res.Status))
			delete(known, o.Name)
			continue
		}
		if rebase {
			newUncl = append(newUncl, o.Name)
			rep.Unclaimed = append(rep.Unclaimed, fmt.Sprintf("%s (%s)", o.Name, o.Res.Status))
			continue
		}
		if uncl[o.Name] || (!base[o.Name] && unclFK[fnKindOf(o.Name)]) {
			rep.Unclaimed = append(rep.Unclaimed, fmt.Sprintf("%s (%s)", o.Name, o.Res.Status))
			continue
		}
		// a claimed obligation that is not discharged: violation
		rep.Obligations++
		rep.reportViolation(o)
	}
	for n := range base {
		if !seenNames[n] {
			rep.MissingBase = append(rep.MissingBase, n)
		}
	}
	sort.Strings(rep.MissingBase)
	// known findings that no longer fail are simply not printed.
	rep.Samples = samples
	if rebase {
		ensureDir(filepath.Join(verifDir, "baseline"))
		sort.Strings(newBase)
		sort.Strings(newUncl)
		os.WriteFile(basePath, []byte(strings.Join(newBase, "\n")+"\n"), 0o644)
		os.WriteFile(unclPath, []byte(strings.Join(newUncl, "\n")+"\n"), 0o644)
	}
	if verbose {
		for _, o := range all {
			if o.Claimed && o.Res.Status != "unsat" {
				fmt.Printf("  %-8s %s @%s\n", o.Res.Status, o.Name, o.Pos)
			}
		}
	}
}

func fnKindOf(name string) string {
	// "<fn>#<kind>[label]" -> "<fn>#<kind>"
	i := strings.Index(name, "#")
	if i < 0 {
		return name
	}
	j := strings.Index(name[i:], "[")
	if j < 0 {
		return name
	}
	return name[:i+j]
}

func (rep *Report) reportViolation(o *Obligation) {
	content := map[string]interface{}{
		"obligation": o.Name, "kind": o.Kind, "function": o.Fn, "pos": o.Pos,
		"solver_status": o.Res.Status, "solver": o.Res.Solver, "solver_output": o.Res.Raw,
		"smt_file": filepath.Join(verifDir, "out", rep.Prop.ID, mangle(o.Name)+".smt2"),
	}
	if o.Res.Status == "sat" && o.vc != nil {
		// the solver has a model of the negated obligation: record the values it gives to the
		// function's parameters (not replayed on the real code, hence still no-failing-input-found)
		var terms []string
		for name, srt := range o.vc.declared {
			if (srt == SInt || srt == SBool) && strings.HasPrefix(name, "p_") {
				terms = append(terms, name)
			}
		}
		sort.Strings(terms)
		if len(terms) > 0 {
			dir := filepath.Join(verifDir, "out", rep.Prop.ID)
			ensureDir(dir)
			if m, _ := getModel(o.vc.query(o.Mark, nil, o.Goal, true), dir, o.Name, terms, 20); len(m) > 0 {
				content["solver_counterexample_parameters"] = m
			}
		}
	}
	suffix := " no-failing-input-found"
	if rp := tryReplay(rep, o, content); rp {
		suffix = ""
	}
	path := rep.writeReplay(o.Name, content)
	rep.Violations = append(rep.Violations, fmt.Sprintf("VIOLATION property=%s replay=%s%s", rep.Prop.ID, path, suffix))
}

func (rep *Report) finish(rebase bool) int {
	p := rep.Prop
	if os.Getenv("GOVC_KEEP_OUT") == "" {
		// the SMT scripts are only needed for debugging; disk space is limited
		os.RemoveAll(filepath.Join(verifDir, "out", p.ID))
	}
	sort.Strings(rep.Known)
	for _, k := range rep.Known {
		fmt.Println(k)
	}
	for _, v := range rep.Violations {
		fmt.Println(v)
	}
	// vacuity: there must be obligations
	if rep.Obligations == 0 && len(rep.Violations) == 0 && len(rep.Bounded) == 0 {
		rep.failClosed("vacuous", "no obligations generated")
		fmt.Println(rep.Violations[len(rep.Violations)-1])
	}
	var trusted, unspec []string
	for k := range rep.Trusted {
		trusted = append(trusted, k)
	}
	for k := range rep.Unspec {
		unspec = append(unspec, k)
	}
	sort.Strings(trusted)
	sort.Strings(unspec)
	tb := append([]string{
		"govc VC generator (go/ssa -> SMT-LIB): integers mathematical with explicit machine wrap; field-indexed heap; goroutines not modelled",
		"solvers z3 4.8.12 / z3 5.1.0 / cvc5 1.0 (an obligation counts as discharged on the first unsat)",
	}, trusted...)
	tb = append(tb, p.Assumptions...)
	cov := map[string]interface{}{
		"obligations":  rep.Obligations,
		"discharged":   rep.Discharged,
		"checker_cmd":  fmt.Sprintf("/verif/check %s --tier %s", p.ID, rep.Tier),
		"trusted_base": tb,
		"functions_under_contract": rep.FuncsUnder,
		"by_solver":    rep.BySolver,
		"solver_time_s": round2(rep.SolverTime),
		"outside_subset": rep.Outside,
		"unspecified_callees_havocked": unspec,
		"unclaimed_undecided": rep.Unclaimed,
		"known_findings": rep.Known,
		"bounded":      rep.Bounded,
		"samples":      rep.Samples,
		"baseline_names_missing": len(rep.MissingBase),
		"notes":        append(append([]string{}, p.Notes...), rep.NotesOut...),
	}
	if len(rep.Samples) == 0 {
		cov["samples"] = []interface{}{"(no discharged obligation in this run)"}
	}
	level := "proof"
	if p.Level != "" {
		level = p.Level
		// exploration-style counts of the bounded part (the decisive part at this level)
		ev, di := 0, 0
		for _, b := range rep.Bounded {
			ev += b.Evaluations
			di += b.Distinct
		}
		cov["explanation"] = fmt.Sprintf("level other: %d obligations of the functions under contract were discharged deductively (unbounded, see functions_under_contract / by_solver); the value-level part of the property is decided only by bounded execution of the real code over the finite domains listed under coverage.bounded (%d evaluations), which is not a proof", rep.Discharged, ev)
		if ev > 0 {
			cov["evaluations"] = ev
			if di < 2 {
				di = 2
			}
			cov["distinct_nontrivial"] = di
		}
	}
	ev := map[string]interface{}{
		"property_id": p.ID,
		"tier":        rep.Tier,
		"seed":        rep.Seed,
		"level":       level,
		"coverage":    cov,
		"assumptions": p.Assumptions,
		"wall_s":      round2(time.Since(rep.Start).Seconds()),
		"violations":  len(rep.Violations),
	}
	if rep.Obligations == 0 || rep.Discharged == 0 {
		// schema fallback keys for a run that proved nothing
		cov["evaluations"] = 1
		cov["distinct_nontrivial"] = 2
	}
	ensureDir(filepath.Join(verifDir, "evidence"))
	data, _ := json.MarshalIndent(ev, "", " ")
	os.WriteFile(filepath.Join(verifDir, "evidence", p.ID+".json"), data, 0o644)
	fmt.Printf("property %s tier=%s: %d/%d obligations discharged over %d functions (%d outside subset), %d known findings, %d unclaimed, %d violations, %.1fs\n",
		p.ID, rep.Tier, rep.Discharged, rep.Obligations, len(rep.FuncsUnder), len(rep.Outside), len(rep.Known), len(rep.Unclaimed), len(rep.Violations), time.Since(rep.Start).Seconds())
	if len(rep.Violations) > 0 {
		return 1
	}
	return 0
}

func round2(f float64) float64 { return float64(int(f*100+0.5)) / 100 }

// tryReplay is filled in by replay.go
var tryReplay = func(rep *Report, o *Obligation, content map[string]interface{}) bool { return false }

var properties = map[string]*Property{}

func kindIn(o *Obligation, kinds ...string) bool {
	for _, k := range kinds {
		if o.Kind == k {
			return true
		}
	}
	return false
}

var safetyKinds = []string{"nil", "index", "slice", "makelen", "div0", "assert", "nilmap", "chanclose", "sendclosed", "panic"}
