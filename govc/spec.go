package main

// Contract language: tokenizer, expression parser and contract file reader.

import (
	"fmt"
	"os"
	"regexp"
	"strconv"
	"strings"
)

type SExpr interface{}

type (
	SLit    struct{ Kind, Val string } // int bool nil string
	SIdent  struct{ Name string }
	SField  struct {
		X    SExpr
		Name string
	}
	SIndex struct{ X, I SExpr }
	SCall  struct {
		Fun  string
		Recv SExpr
		Args []SExpr
		Raw  []string // raw text of args (for type arguments)
	}
	SUnary struct {
		Op string
		X  SExpr
	}
	SBinary struct {
		Op   string
		X, Y SExpr
	}
	SCond  struct{ C, A, B SExpr }
	SQuant struct {
		Forall bool
		Vars   []string
		Body   SExpr
	}
)

type tok struct {
	k string // id num str op eof
	s string
}

func tokenize(src string) ([]tok, error) {
	var ts []tok
	i := 0
	for i < len(src) {
		c := src[i]
		switch {
		case c == ' ' || c == '\t':
			i++
		case c >= '0' && c <= '9':
			j := i
			for j < len(src) && (src[j] >= '0' && src[j] <= '9' || src[j] >= 'a' && src[j] <= 'f' || src[j] >= 'A' && src[j] <= 'F' || src[j] == 'x' || src[j] == '_') {
				j++
			}
			ts = append(ts, tok{"num", strings.ReplaceAll(src[i:j], "_", "")})
			i = j
		case c == '_' || c == '$' || c >= 'a' && c <= 'z' || c >= 'A' && c <= 'Z':
			j := i
			for j < len(src) && (src[j] == '_' || src[j] == '$' || src[j] >= 'a' && src[j] <= 'z' || src[j] >= 'A' && src[j] <= 'Z' || src[j] >= '0' && src[j] <= '9') {
				j++
			}
			ts = append(ts, tok{"id", src[i:j]})
			i = j
		case c == '"':
			j := i + 1
			for j < len(src) && src[j] != '"' {
				if src[j] == '\\' {
					j++
				}
				j++
			}
			if j >= len(src) {
				return nil, fmt.Errorf("unterminated string")
			}
			s, err := strconv.Unquote(src[i : j+1])
			if err != nil {
				return nil, err
			}
			ts = append(ts, tok{"str", s})
			i = j + 1
		default:
			ops := []string{"<==>", "==>", "::", "==", "!=", "<=", ">=", "&&", "||", "<<", ">>", "&^"}
			matched := false
			for _, op := range ops {
				if strings.HasPrefix(src[i:], op) {
					ts = append(ts, tok{"op", op})
					i += len(op)
					matched = true
					break
				}
			}
			if matched {
				continue
			}
			if strings.ContainsRune("()[]{}.,?:!<>+-*/%&|^", rune(c)) {
				ts = append(ts, tok{"op", string(c)})
				i++
				continue
			}
			return nil, fmt.Errorf("bad character %q at %d in %q", c, i, src)
		}
	}
	ts = append(ts, tok{"eof", ""})
	return ts, nil
}

type sparser struct {
	ts  []tok
	pos int
	src string
}

func parseSpecExpr(src string) (e SExpr, err error) {
	ts, err := tokenize(src)
	if err != nil {
		return nil, err
	}
	p := &sparser{ts: ts, src: src}
	defer func() {
		if r := recover(); r != nil {
			if s, ok := r.(string); ok {
				err = fmt.Errorf("spec parse error: %s in %q", s, src)
				return
			}
			panic(r)
		}
	}()
	e = p.expr(0)
	if p.peek().k != "eof" {
		panic("trailing tokens at " + p.peek().s)
	}
	return e, nil
}

func (p *sparser) peek() tok { return p.ts[p.pos] }
func (p *sparser) next() tok { t := p.ts[p.pos]; p.pos++; return t }
func (p *sparser) isOp(s string) bool {
	t := p.peek()
	return t.k == "op" && t.s == s
}
func (p *sparser) expect(s string) {
	t := p.next()
	if t.k != "op" || t.s != s {
		panic(fmt.Sprintf("expected %q got %q", s, t.s))
	}
}

var binPrec = map[string]int{
	"<==>": 1, "==>": 2, "||": 4, "&&": 5,
	"==": 6, "!=": 6, "<": 6, "<=": 6, ">": 6, ">=": 6,
	"+": 7, "-": 7, "|": 7, "^": 7,
	"*": 8, "/": 8, "%": 8, "&": 8, "<<": 8, ">>": 8, "&^": 8,
}

func (p *sparser) expr(minPrec int) SExpr {
	// quantifiers bind loosest
	if t := p.peek(); t.k == "id" && (t.s == "forall" || t.s == "exists") {
		p.next()
		var vars []string
		for {
			v := p.next()
			if v.k != "id" {
				panic("quantifier variable expected")
			}
			vars = append(vars, v.s)
			// optional type name
			if p.peek().k == "id" {
				p.next()
			}
			if p.isOp(",") {
				p.next()
				continue
			}
			break
		}
		p.expect("::")
		body := p.expr(0)
		return &SQuant{Forall: t.s == "forall", Vars: vars, Body: body}
	}
	lhs := p.unary()
	for {
		t := p.peek()
		if t.k != "op" {
			break
		}
		if t.s == "?" && minPrec <= 3 {
			p.next()
			a := p.expr(0)
			p.expect(":")
			b := p.expr(3)
			lhs = &SCond{lhs, a, b}
			continue
		}
		prec, ok := binPrec[t.s]
		if !ok || prec < minPrec {
			break
		}
		p.next()
		var rhs SExpr
		if t.s == "==>" || t.s == "<==>" {
			rhs = p.expr(prec) // right assoc
		} else {
			rhs = p.expr(prec + 1)
		}
		lhs = &SBinary{t.s, lhs, rhs}
	}
	return lhs
}

func (p *sparser) unary() SExpr {
	t := p.peek()
	if t.k == "op" && (t.s == "!" || t.s == "-") {
		p.next()
		return &SUnary{t.s, p.unary()}
	}
	return p.postfix(p.primary())
}

func (p *sparser) primary() SExpr {
	t := p.next()
	switch t.k {
	case "num":
		v, err := strconv.ParseInt(t.s, 0, 64)
		if err != nil {
			u, err2 := strconv.ParseUint(t.s, 0, 64)
			if err2 != nil {
				allDigits := true
				for _, c := range t.s {
					if c < '0' || c > '9' {
						allDigits = false
					}
				}
				if allDigits {
					return &SLit{"int", t.s}
				}
				panic("bad number " + t.s)
			}
			return &SLit{"int", strconv.FormatUint(u, 10)}
		}
		return &SLit{"int", strconv.FormatInt(v, 10)}
	case "str":
		return &SLit{"string", t.s}
	case "id":
		switch t.s {
		case "true", "false":
			return &SLit{"bool", t.s}
		case "nil":
			return &SLit{"nil", ""}
		}
		return &SIdent{t.s}
	case "op":
		if t.s == "(" {
			e := p.expr(0)
			p.expect(")")
			return e
		}
	}
	panic("unexpected token " + t.s)
}

func (p *sparser) postfix(e SExpr) SExpr {
	for {
		switch {
		case p.isOp("."):
			p.next()
			n := p.next()
			if n.k != "id" {
				panic("field name expected")
			}
			if p.isOp("(") {
				args, raw := p.args()
				e = &SCall{Fun: n.s, Recv: e, Args: args, Raw: raw}
			} else {
				e = &SField{e, n.s}
			}
		case p.isOp("["):
			p.next()
			i := p.expr(0)
			p.expect("]")
			e = &SIndex{e, i}
		case p.isOp("("):
			id, ok := e.(*SIdent)
			if !ok {
				panic("call of non-identifier")
			}
			args, raw := p.args()
			e = &SCall{Fun: id.Name, Args: args, Raw: raw}
		default:
			return e
		}
	}
}

// args parses "(a, b, ...)". For is()/typeof-like calls the raw text of each
// argument is kept so that type expressions (e.g. *DonePackage) survive.
func (p *sparser) args() ([]SExpr, []string) {
	p.expect("(")
	var args []SExpr
	var raws []string
	for !p.isOp(")") {
		start := p.pos
		// try expression; on failure, capture raw tokens to the matching , or )
		var e SExpr
		func() {
			defer func() {
				if r := recover(); r != nil {
					if _, ok := r.(string); !ok {
						panic(r)
					}
					e = nil
					p.pos = start
				}
			}()
			e = p.expr(0)
			if !p.isOp(",") && !p.isOp(")") {
				panic("raw")
			}
		}()
		if e == nil {
			depth := 0
			for {
				t := p.peek()
				if t.k == "eof" {
					panic("unterminated args")
				}
				if depth == 0 && t.k == "op" && (t.s == "," || t.s == ")") {
					break
				}
				if t.k == "op" && (t.s == "(" || t.s == "[") {
					depth++
				}
				if t.k == "op" && (t.s == ")" || t.s == "]") {
					depth--
				}
				p.next()
			}
		}
		var sb strings.Builder
		for _, t := range p.ts[start:p.pos] {
			sb.WriteString(t.s)
		}
		args = append(args, e)
		raws = append(raws, sb.String())
		if p.isOp(",") {
			p.next()
		}
	}
	p.expect(")")
	return args, raws
}

// ---------------------------------------------------------------------------
// Contracts

type Clause struct {
	CutTags []string // per cut: "" (always), "entry" or "keep"
	Cuts  []SExpr // "by" lemmas: proved first, then assumed for this clause only
	Label string
	E     SExpr
	Src   string
	Where string // file:line
}

type LoopSpec struct {
	ExitInv    []Clause // hold at exits from the middle of the body (proved there, then assumed)
	Invariants []Clause
	Decreases  []Clause
}

type ModItem struct {
	Star  bool   // "x.*": any field of the object x denotes (whatever its dynamic type)
	Whole bool   // whole field of a type: "T.f" / "ghost name"
	Key   string // modset key when Whole
	E     SExpr  // location expression otherwise (x.f, x[i], elems(x))
	Src   string
}

type GhostUpdate struct {
	At  string // "exit" | "entry" | "call:<callee>#<n>" | "loop:<n>"
	LHS SExpr
	RHS SExpr
	Src string
}

type Contract struct {
	Func     string // canonical function key
	Kind     string // func | iface | extern
	Results  []string
	ParamsOv []string // parameter names override (for interface methods/externs)
	Requires []Clause
	Ensures  []Clause
	Modifies []ModItem
	HasMod   bool
	Loops    map[int]*LoopSpec
	Ghost    []GhostUpdate
	Trusted  bool // assumed, not verified
	NoInline bool
	Where    string
	MayPanic bool
	Props    map[string]bool
	Like     string
	LikePkg  string
	ThisAlias bool
	LikeResults []string
	InvCuts  map[string][]SExpr // "Type/label" -> cuts used when proving that type invariant clause in this function
	// OnSend: conditions that must hold at every channel send executed by the function
	// (the value sent is bound to "sent", the channel to "sentch")
	OnSend []Clause
}

type PredDef struct {
	Pkg    string
	Name   string
	Recv   string // receiver param name ("" if none)
	Params []string
	Body   SExpr
	Src    string
}

type GhostField struct {
	Owner string // type name (struct or interface), package-qualified short name
	Name  string // with leading $
	Sort  Sort
}

type ContractDB struct {
	Funcs   map[string]*Contract
	Preds   map[string]*PredDef
	Ghosts  map[string]*GhostField // key Owner + "." + Name
	// ChanInv: invariants of the values travelling through a channel-typed struct field
	// (key "<pkg>.<Type>.<field>", element bound to "v"): checked at sends, assumed at receives
	ChanInv    map[string][]Clause
	ChanInvPkg map[string]string
	TypeInv map[string][]Clause   // type name -> invariant clauses over "this"
	ParamInv map[string][]Clause  // type name -> clauses assumed for every parameter of that type, checked at call sites
	Consts  map[string]SExpr
	Lemmas  []*Lemma
	Errors  []string
}

type Lemma struct {
	Pkg      string
	Name     string
	Params   []string
	Requires []Clause
	Ensures  []Clause
	Where    string
}

func newContractDB() *ContractDB {
	return &ContractDB{Funcs: map[string]*Contract{}, Preds: map[string]*PredDef{}, Ghosts: map[string]*GhostField{}, TypeInv: map[string][]Clause{}, ParamInv: map[string][]Clause{}, Consts: map[string]SExpr{}, ChanInv: map[string][]Clause{}, ChanInvPkg: map[string]string{}}
}

var (
	reLabel = regexp.MustCompile(`^\[([A-Za-z0-9_\-./#<>=!+:]+)\]\s*(.*)$`)
	reFunc  = regexp.MustCompile(`^(func|interface|extern)\s+(\S+)(?:\s+params\s*\(([^)]*)\))?(?:\s+returns\s*\(([^)]*)\))?\s*(.*)$`)
	rePred  = regexp.MustCompile(`^pred\s+(?:\((\w+)\s+([^)]+)\)\s+)?(\$?\w+)\s*\(([^)]*)\)\s*\{(.*)\}\s*$`)
	reGhost = regexp.MustCompile(`^ghost\s+field\s+(\S+?)\.(\$\w+)\s+(.+)$`)
	reLoop  = regexp.MustCompile(`^loop\s+(\d+)\s*:?\s*$`)
)

// loadContracts reads every //@ line of the file. pkgPrefix is the short
// package qualifier ("tds") used to canonicalise unqualified names.
func (db *ContractDB) loadFile(path, pkgPrefix string) {
	data, err := os.ReadFile(path)
	if err != nil {
		db.Errors = append(db.Errors, err.Error())
		return
	}
	var cur *Contract
	var curLoop *LoopSpec
	var curLemma *Lemma
	lines := strings.Split(string(data), "\n")
	// join continuation lines: a //@ line starting with "\" continues the previous
	type ln struct {
		n int
		s string
	}
	var ls []ln
	for i, l := range lines {
		t := strings.TrimSpace(l)
		if !strings.HasPrefix(t, "//@") {
			continue
		}
		t = strings.TrimSpace(t[3:])
		if t == "" || strings.HasPrefix(t, "#") {
			continue
		}
		if strings.HasPrefix(t, "\\") && len(ls) > 0 {
			ls[len(ls)-1].s += " " + strings.TrimSpace(t[1:])
			continue
		}
		ls = append(ls, ln{i + 1, t})
	}
	fail := func(n int, format string, a ...interface{}) {
		db.Errors = append(db.Errors, fmt.Sprintf("%s:%d: %s", path, n, fmt.Sprintf(format, a...)))
	}
	clause := func(n int, rest string) (Clause, bool) {
		c := Clause{Where: fmt.Sprintf("%s:%d", path, n)}
		if m := reLabel.FindStringSubmatch(rest); m != nil {
			c.Label = m[1]
			rest = m[2]
		}
		c.Src = rest
		parts := splitBy(rest)
		e, err := parseSpecExpr(parts[0])
		if err != nil {
			fail(n, "%v", err)
			return c, false
		}
		c.E = e
		for _, cs := range parts[1:] {
			tag := ""
			if strings.HasPrefix(cs, "@entry ") {
				tag, cs = "entry", strings.TrimSpace(cs[7:])
			} else if strings.HasPrefix(cs, "@keep ") {
				tag, cs = "keep", strings.TrimSpace(cs[6:])
			}
			ce, err := parseSpecExpr(cs)
			if err != nil {
				fail(n, "%v", err)
				return c, false
			}
			c.Cuts = append(c.Cuts, ce)
			c.CutTags = append(c.CutTags, tag)
		}
		return c, true
	}
	for _, l := range ls {
		t := l.s
		where := fmt.Sprintf("%s:%d", path, l.n)
		switch {
		case reFunc.MatchString(t) && (strings.HasPrefix(t, "func ") || strings.HasPrefix(t, "interface ") || strings.HasPrefix(t, "extern ")):
			m := reFunc.FindStringSubmatch(t)
			name := m[2]
			kind := m[1]
			if kind == "iface" || kind == "interface" {
				kind = "iface"
			}
			key := canonFuncKey(name, pkgPrefix, kind)
			cur = &Contract{Func: key, Kind: kind, Loops: map[int]*LoopSpec{}, Where: where, Props: map[string]bool{}}
			if m[3] != "" {
				for _, r := range strings.Split(m[3], ",") {
					cur.ParamsOv = append(cur.ParamsOv, strings.TrimSpace(r))
				}
			}
			if m[4] != "" {
				for _, r := range strings.Split(m[4], ",") {
					cur.Results = append(cur.Results, strings.TrimSpace(r))
				}
			}
			words := strings.Fields(m[5])
			for wi := 0; wi < len(words); wi++ {
				w := words[wi]
				if w == "like" && wi+1 < len(words) {
					cur.Like = canonFuncKey(words[wi+1], pkgPrefix, "iface")
					wi++
					continue
				}
				cur.Props[w] = true
			}
			if kind == "extern" || cur.Props["trusted"] || strings.HasPrefix(key, "fieldfunc:") || strings.HasPrefix(key, "functype:") || strings.HasPrefix(key, "paramfunc:") {
				cur.Trusted = true
			}
			if _, dup := db.Funcs[key]; dup {
				fail(l.n, "duplicate contract for %s", key)
			}
			db.Funcs[key] = cur
			curLoop = nil
			curLemma = nil
		case strings.HasPrefix(t, "lemma "):
			rest := strings.TrimSpace(t[6:])
			name := rest
			var params []string
			if i := strings.Index(rest, "("); i >= 0 {
				name = strings.TrimSpace(rest[:i])
				ps := strings.TrimSuffix(strings.TrimSpace(rest[i+1:]), ")")
				for _, p := range strings.Split(ps, ",") {
					p = strings.TrimSpace(p)
					if p != "" {
						params = append(params, strings.Fields(p)[0])
					}
				}
			}
			curLemma = &Lemma{Name: name, Params: params, Where: where, Pkg: pkgPrefix}
			db.Lemmas = append(db.Lemmas, curLemma)
			cur = nil
			curLoop = nil
		case strings.HasPrefix(t, "pred "):
			m := rePred.FindStringSubmatch(t)
			if m == nil {
				fail(l.n, "bad pred syntax")
				continue
			}
			pd := &PredDef{Name: m[3], Src: m[5], Pkg: pkgPrefix}
			if m[1] != "" {
				pd.Recv = m[1]
				tn := strings.TrimPrefix(strings.TrimSpace(m[2]), "*")
				if !strings.Contains(tn, ".") {
					tn = pkgPrefix + "." + tn
				}
				pd.Name = tn + "." + m[3]
			}
			for _, p := range strings.Split(m[4], ",") {
				p = strings.TrimSpace(p)
				if p != "" {
					pd.Params = append(pd.Params, strings.Fields(p)[0])
				}
			}
			e, err := parseSpecExpr(m[5])
			if err != nil {
				fail(l.n, "%v", err)
				continue
			}
			pd.Body = e
			if prev, dup := db.Preds[pd.Name]; dup && prev.Src != pd.Src {
				fail(l.n, "predicate %s is already defined (predicate names are global across packages)", pd.Name)
			}
			db.Preds[pd.Name] = pd
		case strings.HasPrefix(t, "ghost field "):
			m := reGhost.FindStringSubmatch(t)
			if m == nil {
				fail(l.n, "bad ghost field syntax")
				continue
			}
			owner := m[1]
			if !strings.Contains(owner, ".") {
				owner = pkgPrefix + "." + owner
			}
			var s Sort
			switch strings.TrimSpace(m[3]) {
			case "int":
				s = SInt
			case "bool":
				s = SBool
			case "[int]int":
				s = SArr
			case "[int]bool":
				s = SArrB
			default:
				fail(l.n, "bad ghost sort %q", m[3])
				continue
			}
			db.Ghosts[owner+"."+m[2]] = &GhostField{Owner: owner, Name: m[2], Sort: s}
		case strings.HasPrefix(t, "paraminv "):
			rest := strings.TrimSpace(t[9:])
			i := strings.Index(rest, " ")
			if i < 0 {
				fail(l.n, "bad paraminv")
				continue
			}
			tn := strings.TrimSpace(rest[:i])
			if !strings.Contains(tn, ".") {
				tn = pkgPrefix + "." + tn
			}
			c, ok := clause(l.n, strings.TrimSpace(rest[i+1:]))
			if ok {
				db.ParamInv[tn] = append(db.ParamInv[tn], c)
			}
		case strings.HasPrefix(t, "typeinv "):
			rest := strings.TrimSpace(t[8:])
			i := strings.Index(rest, "{")
			if i < 0 {
				fail(l.n, "bad typeinv")
				continue
			}
			tn := strings.TrimSpace(rest[:i])
			if !strings.Contains(tn, ".") {
				tn = pkgPrefix + "." + tn
			}
			body := strings.TrimSpace(strings.TrimSuffix(strings.TrimSpace(rest[i+1:]), "}"))
			c, ok := clause(l.n, body)
			if ok {
				db.TypeInv[tn] = append(db.TypeInv[tn], c)
			}
		case strings.HasPrefix(t, "requires "):
			c, ok := clause(l.n, strings.TrimSpace(t[9:]))
			if !ok {
				continue
			}
			if curLemma != nil {
				curLemma.Requires = append(curLemma.Requires, c)
			} else if cur != nil {
				cur.Requires = append(cur.Requires, c)
			} else {
				fail(l.n, "requires outside contract")
			}
		case strings.HasPrefix(t, "chaninv "):
			rest := strings.TrimSpace(t[8:])
			i := strings.Index(rest, " ")
			if i < 0 {
				fail(l.n, "bad chaninv")
				continue
			}
			key := rest[:i]
			if strings.Count(key, ".") == 1 {
				key = pkgPrefix + "." + key
			}
			c, ok := clause(l.n, strings.TrimSpace(rest[i+1:]))
			if ok {
				db.ChanInv[key] = append(db.ChanInv[key], c)
				db.ChanInvPkg[key] = pkgPrefix
			}
		case strings.HasPrefix(t, "onsend "):
			c, ok := clause(l.n, strings.TrimSpace(t[7:]))
			if !ok {
				continue
			}
			if cur != nil {
				cur.OnSend = append(cur.OnSend, c)
			} else {
				fail(l.n, "onsend outside contract")
			}
		case strings.HasPrefix(t, "ensures "):
			c, ok := clause(l.n, strings.TrimSpace(t[8:]))
			if !ok {
				continue
			}
			if curLemma != nil {
				curLemma.Ensures = append(curLemma.Ensures, c)
			} else if cur != nil {
				cur.Ensures = append(cur.Ensures, c)
			} else {
				fail(l.n, "ensures outside contract")
			}
		case strings.HasPrefix(t, "modifies"):
			if cur == nil {
				fail(l.n, "modifies outside contract")
				continue
			}
			cur.HasMod = true
			rest := strings.TrimSpace(t[8:])
			if rest == "" || rest == "nothing" {
				continue
			}
			for _, item := range splitTop(rest) {
				item = strings.TrimSpace(item)
				if strings.HasPrefix(item, "all ") {
					k := strings.TrimSpace(item[4:])
					cur.Modifies = append(cur.Modifies, ModItem{Whole: true, Key: canonModKey(k, pkgPrefix), Src: item})
					continue
				}
				star := false
				if strings.HasSuffix(item, ".*") {
					star = true
					item = strings.TrimSuffix(item, ".*")
				}
				e, err := parseSpecExpr(item)
				if err != nil {
					fail(l.n, "%v", err)
					continue
				}
				cur.Modifies = append(cur.Modifies, ModItem{E: e, Src: item, Star: star})
			}
		case reLoop.MatchString(t):
			if cur == nil {
				fail(l.n, "loop outside contract")
				continue
			}
			m := reLoop.FindStringSubmatch(t)
			k, _ := strconv.Atoi(m[1])
			curLoop = &LoopSpec{}
			cur.Loops[k] = curLoop
		case strings.HasPrefix(t, "invariant "):
			if curLoop == nil {
				fail(l.n, "invariant outside loop")
				continue
			}
			c, ok := clause(l.n, strings.TrimSpace(t[10:]))
			if ok {
				curLoop.Invariants = append(curLoop.Invariants, c)
			}
		case strings.HasPrefix(t, "exitinv "):
			if curLoop == nil {
				fail(l.n, "exitinv outside loop")
				continue
			}
			c, ok := clause(l.n, strings.TrimSpace(t[8:]))
			if ok {
				curLoop.ExitInv = append(curLoop.ExitInv, c)
			}
		case strings.HasPrefix(t, "decreases "):
			if curLoop == nil {
				fail(l.n, "decreases outside loop")
				continue
			}
			c, ok := clause(l.n, strings.TrimSpace(t[10:]))
			if ok {
				curLoop.Decreases = append(curLoop.Decreases, c)
			}
		case strings.HasPrefix(t, "cut typeinv "):
			if cur == nil {
				fail(l.n, "cut outside contract")
				continue
			}
			rest := strings.TrimSpace(t[12:])
			i := strings.Index(rest, " by ")
			if i < 0 {
				fail(l.n, "cut typeinv needs 'by'")
				continue
			}
			key := strings.TrimSpace(rest[:i])
			if !strings.Contains(strings.SplitN(key, "/", 2)[0], ".") {
				key = pkgPrefix + "." + key
			}
			if cur.InvCuts == nil {
				cur.InvCuts = map[string][]SExpr{}
			}
			for _, cs := range splitBy("x" + rest[i:])[1:] {
				e, err := parseSpecExpr(cs)
				if err != nil {
					fail(l.n, "%v", err)
					continue
				}
				cur.InvCuts[key] = append(cur.InvCuts[key], e)
			}
		case strings.HasPrefix(t, "ghost-update "):
			if cur == nil {
				fail(l.n, "ghost-update outside contract")
				continue
			}
			rest := strings.TrimSpace(t[13:])
			// at <anchor>: lhs := rhs  (the anchor itself may contain a colon, e.g. functype:T)
			i := strings.Index(rest, ":")
			if ja := strings.Index(rest, ":="); ja > 0 {
				if k := strings.LastIndex(rest[:ja], ":"); k >= 0 {
					i = k
				}
			}
			if !strings.HasPrefix(rest, "at ") || i < 0 {
				fail(l.n, "bad ghost-update")
				continue
			}
			anchor := strings.TrimSpace(rest[3:i])
			asg := rest[i+1:]
			j := strings.Index(asg, ":=")
			if j < 0 {
				fail(l.n, "ghost-update needs :=")
				continue
			}
			lhs, err1 := parseSpecExpr(strings.TrimSpace(asg[:j]))
			rhs, err2 := parseSpecExpr(strings.TrimSpace(asg[j+2:]))
			if err1 != nil || err2 != nil {
				fail(l.n, "%v %v", err1, err2)
				continue
			}
			cur.Ghost = append(cur.Ghost, GhostUpdate{At: anchor, LHS: lhs, RHS: rhs, Src: rest})
		case strings.HasPrefix(t, "const "):
			rest := strings.TrimSpace(t[6:])
			i := strings.Index(rest, "=")
			if i < 0 {
				fail(l.n, "bad const")
				continue
			}
			e, err := parseSpecExpr(strings.TrimSpace(rest[i+1:]))
			if err != nil {
				fail(l.n, "%v", err)
				continue
			}
			db.Consts[strings.TrimSpace(rest[:i])] = e
		default:
			fail(l.n, "unrecognised contract line: %s", t)
		}
	}
}

func splitTop(s string) []string {
	var out []string
	depth := 0
	start := 0
	for i, c := range s {
		switch c {
		case '(', '[':
			depth++
		case ')', ']':
			depth--
		case ',':
			if depth == 0 {
				out = append(out, s[start:i])
				start = i + 1
			}
		}
	}
	out = append(out, s[start:])
	return out
}

// canonFuncKey: "(*PacketQueue).Bytes" in package tds -> "(*tds.PacketQueue).Bytes";
// "NewPacket" -> "tds.NewPacket"; interface "BytesChannel.Bytes" -> "iface:tds.BytesChannel.Bytes".
// Names containing a '/' or already qualified are left alone.
func canonFuncKey(name, pkg, kind string) string {
	if strings.HasPrefix(name, "functype:") {
		n := strings.TrimPrefix(name, "functype:")
		if !strings.Contains(n, ".") {
			n = pkg + "." + n
		}
		return "functype:" + n
	}
	if strings.HasPrefix(name, "paramfunc:") {
		// paramfunc:<function>.<param>: contract of a function-typed parameter
		n := strings.TrimPrefix(name, "paramfunc:")
		i := strings.LastIndex(n, ".")
		return "paramfunc:" + canonFuncKey(n[:i], pkg, "func") + n[i:]
	}
	if strings.HasPrefix(name, "fieldfunc:") {
		n := strings.TrimPrefix(name, "fieldfunc:")
		if strings.Count(n, ".") == 1 {
			n = pkg + "." + n
		}
		return "fieldfunc:" + n
	}
	if kind == "iface" {
		if strings.Count(name, ".") == 1 {
			name = pkg + "." + name
		}
		return "iface:" + name
	}
	if strings.HasPrefix(name, "(") {
		// (*T).M or (T).M
		i := strings.Index(name, ")")
		recv := name[1:i]
		rest := name[i+1:]
		star := ""
		if strings.HasPrefix(recv, "*") {
			star = "*"
			recv = recv[1:]
		}
		if !strings.Contains(recv, ".") {
			recv = pkg + "." + recv
		}
		return "(" + star + recv + ")" + rest
	}
	if kind == "extern" {
		return name
	}
	if !strings.Contains(name, ".") || strings.Contains(name, "$") && !strings.Contains(strings.SplitN(name, "$", 2)[0], ".") {
		return pkg + "." + name
	}
	return name
}

func canonModKey(k, pkg string) string {
	// "Packet.Data" -> F:tds.Packet.Data ; "elems byte" -> A:byte; "ghost BytesChannel.$r" -> GH:tds.BytesChannel.$r
	f := strings.Fields(k)
	switch {
	case len(f) == 2 && f[0] == "elems":
		return "A:" + f[1]
	case len(f) == 2 && f[0] == "ghost":
		n := f[1]
		if strings.Count(n, ".") == 1 {
			n = pkg + "." + n
		}
		return "GH:" + n
	case len(f) == 2 && f[0] == "cells":
		return "C:" + f[1]
	case len(f) == 2 && f[0] == "global":
		n := f[1]
		if !strings.Contains(n, ".") {
			n = pkg + "." + n
		}
		return "G:" + n
	case len(f) == 2 && f[0] == "map":
		return "M:" + f[1]
	}
	n := f[0]
	if strings.Count(n, ".") == 1 {
		n = pkg + "." + n
	}
	return "F:" + n
}


// resolveLikes copies clauses from the contract named by "like".
func (db *ContractDB) resolveLikes() {
	for _, c := range db.Funcs {
		if c.Like == "" {
			continue
		}
		src, ok := db.Funcs[c.Like]
		if !ok {
			db.Errors = append(db.Errors, fmt.Sprintf("%s: like %s: no such contract", c.Where, c.Like))
			continue
		}
		// clauses are copied; identifiers are bound by name: "this" to the receiver,
		// other names to the function's own parameters of the same name
		c.ThisAlias = true
		c.LikeResults = src.Results
		c.Requires = append(append([]Clause{}, src.Requires...), c.Requires...)
		c.Ensures = append(append([]Clause{}, src.Ensures...), c.Ensures...)
		c.Modifies = append(append([]ModItem{}, src.Modifies...), c.Modifies...)
		c.HasMod = c.HasMod || src.HasMod
		c.LikePkg = contractPkgOf(c.Like)
		c.Like = ""
	}
}

func contractPkgOf(key string) string {
	k := strings.TrimPrefix(key, "iface:")
	k = strings.TrimPrefix(k, "(")
	k = strings.TrimPrefix(k, "*")
	if i := strings.Index(k, "."); i >= 0 {
		return k[:i]
	}
	return ""
}


// splitBy splits "expr by cut1 by cut2" at top-level " by " keywords.
func splitBy(s string) []string {
	var out []string
	depth := 0
	start := 0
	for i := 0; i < len(s); i++ {
		switch s[i] {
		case '(', '[':
			depth++
		case ')', ']':
			depth--
		}
		if depth == 0 && strings.HasPrefix(s[i:], " by ") {
			out = append(out, strings.TrimSpace(s[start:i]))
			start = i + 4
			i += 3
		} else if depth == 0 && strings.HasPrefix(s[i:], " by@") {
			out = append(out, strings.TrimSpace(s[start:i]))
			start = i + 3
			i += 3
		}
	}
	out = append(out, strings.TrimSpace(s[start:]))
	return out
}

// cutGoals builds the two proof goals of a clause with cuts:
// (a) the cuts themselves, (b) cuts ==> clause, both under the clause's quantifier.
func (c Clause) cutGoals() (SExpr, SExpr) {
	var conj SExpr
	for i, cu := range c.Cuts {
		if i == 0 {
			conj = cu
		} else {
			conj = &SBinary{"&&", conj, cu}
		}
	}
	if q, ok := c.E.(*SQuant); ok && q.Forall {
		return &SQuant{true, q.Vars, conj}, &SQuant{true, q.Vars, &SBinary{"==>", conj, q.Body}}
	}
	return conj, &SBinary{"==>", conj, c.E}
}


// forPhase returns the clause with only the cuts applicable to the phase.
func (c Clause) forPhase(phase string) Clause {
	if len(c.Cuts) == 0 {
		return c
	}
	out := c
	out.Cuts, out.CutTags = nil, nil
	for i, cu := range c.Cuts {
		tag := ""
		if i < len(c.CutTags) {
			tag = c.CutTags[i]
		}
		if tag == "" || tag == phase {
			out.Cuts = append(out.Cuts, cu)
			out.CutTags = append(out.CutTags, tag)
		}
	}
	return out
}
