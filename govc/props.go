package main

import (
	"strings"
)

// The receive-side call tree shared by C07 and C10.
var parserFuncs = []string{
	`^\(\*?tds\.[A-Za-z0-9]+\)\.ReadFrom$`,
	`^\(\*?tds\.[A-Za-z0-9]+\)\.ReadFromField$`,
	`^\(\*?tds\.[A-Za-z0-9]+\)\.(readFrom|readFromStatus|readFromBase|readFromScale|readFromPrecision)$`,
	`^tds\.readLengthBytes$`,
	`^\(\*?tds\.[A-Za-z0-9]+\)\.LastPkg$`,
	`^tds\.(LookupPackage|LookupFieldFmt|LookupFieldFmtData|LookupFieldData)$`,
}

func labelHas(o *Obligation, subs ...string) bool {
	for _, s := range subs {
		if strings.Contains(o.Label, s) {
			return true
		}
	}
	return false
}

func init() {
	properties["C07"] = &Property{
		ID:    "C07",
		Title: "Incomplete package data is always reported as 'not enough bytes'",
		Funcs: parserFuncs,
		Exclude: []string{`tds\.(Conn|Packet|PacketHeader|PacketQueue)\)`},
		Claim: func(o *Obligation) bool {
			switch o.Kind {
			case "iface", "post":
				return labelHas(o, "neb-on-dry", "ok-not-dry", "chwf")
			case "pre":
				return labelHas(o, "/chwf")
			case "auto-entry", "auto-keep":
				return true
			}
			return false
		},
		Assumptions: []string{
			"BytesChannel implementations satisfy the G-stream contract of tds/contracts_verif.go (proved for PacketQueue under C15)",
			"closed world for FieldFmt/FieldData/Package implementations (those in this repository)",
			"error-typed package variables (ErrNotEnoughBytes, io.EOF, ...) are never reassigned",
		},
		Notes: []string{"decides: a parser that saw the stream run dry returns an error e with errors.Is(e, ErrNotEnoughBytes); success implies the stream did not run dry"},
	}
	properties["C10"] = &Property{
		ID:    "C10",
		Title: "No server input can crash the client",
		Funcs: append(append([]string{}, parserFuncs...),
			`^\(\*?asetypes\.DataType\)\.(GoValue|goValue|ByteSize|LengthBytes)$`,
			`^\(\*tds\.Channel\)\.(WritePacket|tryParsePackage|handleSpecialPackage|callEnvChangeHooks|callEEDHooks)$`,
			`^\(\*tds\.PacketHeader\)\.(ReadFrom|Write)$`, `^\(\*tds\.Packet\)\.ReadFrom$`,
		),
		Exclude: []string{`tds\.(Conn)\)`},
		After: func(P *Prog, rep *Report, tier string) {
			runIsland(rep, P.repoDir, "parser-mutations", "tds", "parser_replay_test.go", "TestReplayParsers",
				"13 sample encodings (DONE, RETURNSTATUS, MSG, EED, ERROR, ENVCHANGE, LOGINACK, LANGUAGE, DYNAMIC narrow/wide, PARAMFMT+PARAMS narrow/wide, CAPABILITY) produced by the real WriteTo; every proper prefix and every single-byte mutation (values 0, 1 everywhere; 0x7f, 0x80, 0xff in the first four bytes) parsed by the real LookupPackage/LastPkg/ReadFrom; panics, wrong truncation errors and allocations above 1 MiB are failures", 180)
		},
		Claim: func(o *Obligation) bool {
			// everything except the clauses that belong to C07's claim; the structural
			// obligations (type invariants, typestate, frames, loop invariants) carry
			// the assumptions the safety obligations rely on.
			if (o.Kind == "iface" || o.Kind == "post") && labelHas(o, "neb-on-dry", "ok-not-dry") {
				return false
			}
			return true
		},
		Assumptions: []string{
			"library functions called with arguments satisfying their stated preconditions do not panic",
			"String()/Error() methods invoked by fmt do not panic",
			"methods are entered with non-nil receivers (matching obligation at every static call site)",
		},
	}
}

func init() {
	properties["C15"] = &Property{
		ID:    "C15",
		Title: "The packet queue behaves as a byte FIFO across packet boundaries",
		Funcs: []string{`^\(\*tds\.PacketQueue\)\.[A-Za-z0-9]+$`, `^tds\.(NewPacketQueue|NewPacket)$`},
		Assumptions: []string{
			"one goroutine per queue (the embedded mutex is not modelled)",
			"a queue is used either under the read discipline ($readable) or the write discipline ($writable), never both",
			"PacketQueue.packetSize is Conn.PacketSize (bound in NewChannel) and returns a value in 9..65535 (type invariant of Conn, see C08)",
			"append never exceeds the maximal slice size (memory is finite)",
		},
		Notes: []string{
			"abstract view: the BytesChannel ghosts of the queue object ($in/$r/$end for reads, $out/$w for writes) and Packet.$pos, the absolute stream offset of each packet",
			"every read method is proved against the BytesChannel stream contract (little-endian composition of the typed reads included); AddPacket, DiscardUntilCurrentPosition, SetPosition, Reset preserve the representation invariant; discard keeps the read position and the unread bytes",
		},
	}
}


func init() {
	properties["C20"] = &Property{
		ID:     "C20",
		Title:  "Isolation level mapping is a deterministic, consistent function",
		Pkgs:   []string{"."},
		Funcs:  []string{`^dblib\.ASEIsolationLevelFromGo$`, `^\(dblib\.ASEIsolationLevel\)\.(ToGo|String)$`},
		Lemmas: []string{`^dblib\.roundtrip$`},
		Assumptions: []string{
			"database/sql.IsolationLevel.String is a pure function of its receiver",
			"the package-level table sql2ase is not modified after initialisation (no writes in the repository; read from its literal on every run)",
			"iteration over a map is modelled as yielding any present key in any order, so a result that depends on iteration order cannot satisfy a functional postcondition",
		},
		Notes: []string{"determinism is not sampled: each postcondition names the one value the function must return for every int argument"},
	}
}

func init() {
	properties["C19"] = &Property{
		ID:    "C19",
		Title: "A version has a capability exactly inside the capability's ranges",
		Pkgs:  []string{"./capability"},
		Funcs: []string{`^\(capability\.VersionRange\)\.contains$`, `^\(capability\.Target\)\.(SetCapabilities|Version)$`, `^capability\.(NewCapability|NewDefaultVersion|VersionCompareSemantic)$`, `^\(\*?capability\.DefaultVersion\)\.(Has|SetCapability|VersionString)$`},
		Assumptions: []string{
			"the version comparer is a deterministic function of its two arguments (uninterpreted uf_cmp / ufb_cmperr); for the default comparer the go-version library is trusted",
			"string equality is identity of string values in the model (sound over-approximation)",
		},
		Notes: []string{
			"decided for all strings and every comparer: VersionRange.contains returns exactly inrange(lower, upper, version) (inclusive lower, exclusive upper, missing bound unbounded, empty range contains nothing) and fails exactly when a needed comparison fails; never a silent answer on error",
			"Target.SetCapabilities / Version, NewCapability, DefaultVersion: memory safety, pairing count and constructor postconditions; the first-containing-range-wins loop is not yet tied to the set-level statement (exists over ranges) and order independence is not mechanised",
		},
	}
}

func init() {
	properties["C18"] = &Property{
		ID:    "C18",
		Title: "Pooled names are unique among concurrent holders",
		Pkgs:  []string{"./namepool"},
		Funcs: []string{`^namepool\.Pool(\$1)?$`, `^\(\*namepool\.pool\)\.(Acquire|Release)$`, `^\(\*namepool\.Name\)\.Release$`, `^\(namepool\.Name\)\.(ID|Name)$`},
		Assumptions: []string{
			"sync.Pool.Get returns a value previously Put or the result of New (assumed contract in namepool/contracts_verif.go); sync/atomic.AddUint64 is one atomic action",
			"goroutine interleavings are not modelled: each method is verified as sequential code; the lifting to concurrent histories (every method performs its shared effect in one library-atomic action) is an argument in DESIGN.md, not a machine-checked proof",
		},
		Notes: []string{
			"decided: the minting closure returns a fresh cell holding counter+1 (never zero before 2^64 ids), Acquire returns a fresh Name holding a non-nil id and its pool, Release clears the Name and is a no-op for nil / already released names (no nil id can enter the pool), all memory-safety obligations",
			"not decided: uniqueness of ids among concurrent holders under arbitrary schedules; the race detector's verdict",
		},
	}
}

func init() {
	properties["C16"] = &Property{
		ID:    "C16",
		Title: "Decimal text conversion preserves the numeric value",
		Pkgs:  []string{"./asetypes"},
		Funcs: []string{`^\(asetypes\.Decimal\)\.(sanity|Cmp|IsNegative|Bytes|ByteSize|Int)$`, `^\(\*asetypes\.Decimal\)\.(String|SetString|Negate|SetBytes|SetInt64)$`, `^asetypes\.(NewDecimal|NewDecimalString)$`},
		After: func(P *Prog, rep *Report, tier string) {
			runIsland(rep, P.repoDir, "decimal-text", "asetypes", "c16_island_test.go", "TestIslandC16",
				"all 741 (precision, scale) pairs with 0 <= scale <= precision <= 38, both signs, unscaled values {0, 1, 7, 10^k, 10^k-1 : k <= precision}, each also with surrounding spaces / leading zeros / trailing zeros; one unrepresentable numeral of each kind per pair; NewDecimal over precision, scale in -2..40; oracle math/big.Rat", 120)
		},
		Assumptions: []string{
			"math/big, strings.Split and fmt.Sprintf contracts in /verif/specs/stdlib.spec (assumed)",
			"the digit-level claims (exact expansion, canonical form, parse(format(d)) == d) are decided only on the bounded domain of the island; other digit strings are not covered",
		},
		Notes: []string{
			"proved (unbounded): construction succeeds exactly for 0 <= scale <= precision <= 38; NewDecimalString propagates both errors; String stays within its digit string for every well-formed decimal; SetString leaves the decimal unchanged on error",
		},
	}
	properties["C17"] = &Property{
		ID:    "C17",
		Title: "Connection descriptions round-trip and never crash the parser",
		Pkgs:  []string{"./dsn"},
		Funcs: []string{`^dsn\.(ParseSimple|Parse|ParseURI|setValue|FormatSimple|FormatURI|tagToField|TagToField)$`},
		After: func(P *Prog, rep *Report, tier string) {
			runIsland(rep, P.repoDir, "dsn-text", "dsn", "c17_island_test.go", "TestIslandC17",
				"URI round trip over 25 boundary texts (URI metacharacters, %, KEY, non-UTF-8, control bytes, quotes) in user/password/database/properties incl. an embedded struct, both bools, 7 boundary ints; simple-form round trip over 24 texts of the documented alphabet (leading/trailing/multiple spaces, '=' signs); alias override order and unknown-key rejection cases; totality of Parse/ParseSimple/ParseURI on every string over a 12-symbol alphabet (quotes, space, '=', letters, '://', '%', ':', '/', '?', '@') up to length 4 (quick) / 5 (thorough) plus 20000 seeded random strings of 5..12 symbols", 120)
		},
		Assumptions: []string{
			"strings, net/url, reflect, strconv and fmt contracts in /verif/specs/stdlib.spec and the engine's reflect/strings abstraction (assumed); string lengths are at most 2^48 (the address space)",
			"the round-trip, override-order and unknown-key claims depend on net/url and reflect and are decided only on the bounded domain of the island; other texts are not covered",
		},
		Notes: []string{
			"proved (unbounded, all input strings): every index, slice, nil-dereference and type-assertion obligation of ParseSimple, Parse, setValue, FormatSimple and FormatURI; ParseURI except the obligations that need facts about net/url results (left unclaimed)",
		},
	}
	properties["C01"] = &Property{
		ID:    "C01",
		Title: "Outgoing messages are well-formed TDS packet sequences",
		Pkgs:  []string{"./tds"},
		Funcs: []string{
			`^\(\*tds\.Channel\)\.(sendPacket|sendPackets|QueuePackage|SendRemainingPackets|SendPackage|Reset)$`,
			`^\(tds\.Packet\)\.(Bytes|WriteTo)$`, `^\(tds\.PacketHeader\)\.(Read|WriteTo)$`, `^tds\.(NewPacket|NewPacketHeader)$`,
			`^\(\*tds\.PacketQueue\)\.(DiscardUntilCurrentPosition|Reset)$`, `^tds\.NewPacketQueue$`,
			`^\(tds\.\w+Package\)\.WriteTo$`, `^\(\*tds\.(DynamicPackage|LanguagePackage|RowFmtPackage)\)\.WriteTo$`,
			`^\(tds\.(fieldFmt\w+|fieldData\w*|EnvChangePackageField)\)\.(WriteTo|writeTo\w*)$`,
		},
		Assumptions: []string{
			"io.Writer contract of the transport (/verif/specs/io.spec): a nil error means the whole buffer was taken, bytes are appended to the peer's stream",
			"Conn [wired] / [packet-size] invariants are established by NewConn and handleSpecialPackage, which are outside the verified set (network, TLS, goroutines); the packet size does not change while a message is queued, so packets created by the queue have the body size sendPacket compares against (not verified)",
			"one goroutine sends on a channel at a time (the RWMutex is taken in read mode by all senders); goroutines are not modelled",
			"the PacketQueue write methods (WriteBytes and the typed writers) are verified under C15 and used here through their contracts",
			"client-built packages handed to QueuePackage satisfy their structural invariants (non-nil fields / formats); the corresponding nil obligations in ParamsPackage/ParamFmtPackage/LoginAckPackage/TokenlessPackage.WriteTo and the LastPkg preconditions are unclaimed",
		},
		Notes: []string{
			"proved (unbounded): every packet written by sendPacket carries the channel's message type and id, a header length equal to 8 + len(body), the end-of-message flag exactly when the body is shorter than the current body size, and reaches the transport as header (big-endian length) followed by the body with earlier bytes of the wire untouched; a successful flush (sendPackets(false), SendRemainingPackets, SendPackage) leaves no message open on the wire (the last packet written carried the end-of-message flag), for every total length including exact multiples of the body size; every Package/FieldFmt/FieldData writer only appends to the channel's output stream",
			"also proved: the transmit position ghost $sent (bytes of the queue's output stream handed to the transport) always equals the stream position of the first byte still queued ($base) after QueuePackage / sendPackets / Reset, every queued packet is sent at exactly the stream position where the previous one ended, the bytes written for a packet are the bytes of the queue's output stream at that position, and a successful flush has sent the whole stream ($sent == $w) and leaves the queue empty: nothing lost, duplicated or left behind",
			"explicit assumption, visible as unclaimed obligations pre[sendPackets#1/size-tie] in QueuePackage and SendRemainingPackets: the queued packets were created with the packet size in force when they are sent (the packet size does not change while a message is queued); the content clause of the queue invariant at the deferred DiscardUntilCurrentPosition call is unclaimed",
		},
	}
	readerFuncs := []string{
		`^\(\*tds\.PacketHeader\)\.(ReadFrom|Write)$`, `^\(\*tds\.Packet\)\.ReadFrom$`,
		`^\(\*tds\.Channel\)\.(WritePacket|tryParsePackage|handleSpecialPackage|callEnvChangeHooks|callEEDHooks)$`,
	}
	properties["C02"] = &Property{
		ID:    "C02",
		Title: "Received package stream does not depend on fragmentation",
		Pkgs:  []string{"./tds"},
		Funcs: readerFuncs,
		Assumptions: []string{
			"io.Reader / io.ReadFull contracts of the transport (/verif/specs/io.spec): a Read returns any 0 <= n <= len(p) next bytes of the peer's stream, possibly together with an error",
			"the PacketQueue read view (C15) and the parser clause (C07: a dry stream is reported as ErrNotEnoughBytes) are verified under those properties and used here through their contracts",
			"the reader goroutine Conn.ReadFrom (channel lookup in a map of pointers, error channel) is not under contract: maps of pointers and goroutines are outside the generator's subset",
			"hooks registered by the client do not reach unexported library state",
		},
		Notes: []string{
			"proved (unbounded, every partition of the byte stream into Read results): PacketHeader.ReadFrom consumes exactly 8 bytes and decodes them big-endian, failing only if the transport failed; Packet.ReadFrom consumes exactly Header.Length bytes, its body is the next Length-8 bytes of the stream in order, whatever the sizes of the individual reads; WritePacket hands a complete packet to the queue and restores a valid queue position after a failed parse attempt (preconditions of SetPosition / AddPacket)",
			"not mechanised: equality of the delivered package sequences for two different packetisations of the same response (a relational statement over two runs); it follows from the three function-level statements above by an argument that is not machine-checked",
		},
	}
	properties["C14"] = &Property{
		ID:    "C14",
		Title: "Transport failure yields a clean prefix and then an error",
		Pkgs:  []string{"./tds"},
		Funcs: readerFuncs[:2],
		Assumptions: []string{
			"io.Reader / io.ReadFull / context contracts (/verif/specs/io.spec, context.spec); a context error is never io.EOF",
			"time bounds (the read timeout) are not modelled: the generator has no notion of time",
			"the reader goroutine Conn.ReadFrom is not under contract (maps of pointers, goroutines); that it dispatches a packet only when Packet.ReadFrom returned nil or an error matching io.EOF is read off its source, not proved",
		},
		Notes: []string{
			"proved (unbounded, every failure offset): Packet.ReadFrom returns nil or an error matching io.EOF only with a complete packet (total == Header.Length, body equal to the stream bytes); every other outcome is an error, raised only if the transport failed or the context is done; PacketHeader.ReadFrom never reports io.EOF for a partial header; a parser that runs out of bytes reports ErrNotEnoughBytes (C07) so no package is assembled from an incomplete packet sequence",
			"not mechanised: the bound on blocking time and the absence of a spurious final DONE after a failure (whole-history statements over the reader goroutine)",
		},
	}
	properties["C03"] = &Property{
		ID:    "C03",
		Title: "Each response is delimited by exactly one final DONE and fully drained",
		Pkgs:  []string{"./tds"},
		Funcs: []string{`^\(\*tds\.Channel\)\.(tryParsePackage|WritePacket|NextPackage|NextPackageUntil|NextPackageUntil\$1)$`, `^tds\.isDoneFinal$`},
		Assumptions: []string{
			"the values received from Channel.packageCh satisfy the channel invariant checked at every send in tryParsePackage / WritePacket (the link between sends and receives of one channel is assumed, goroutines are not modelled)",
			"the consumer's callback passed to NextPackageUntil does not reach unexported library state",
			"PacketQueue.IsEOM / Byte contracts (C15)",
		},
		Notes: []string{
			"proved (unbounded): tryParsePackage hands the consumer only completely parsed packages or the synthetic final DONE, and creates the synthetic DONE only when the receive queue is at the end of a message that carried the end-of-message flag and the last delivered package was not already a final DONE (so a response gets at most one final DONE from the library and none in the middle of a message); isDoneFinal is exactly 'DONE with status 0'; NextPackage / NextPackageUntil record every delivered package in the reply script and return the last delivered package",
			"proved (unbounded, every reply history): NextPackageUntil drains the response — with a nil callback, and after a callback error other than io.EOF, the last package NextPackage handed out is a DONE with final status unless a receive itself failed ($lastFinal || $rxfail; the library's own drain filter, the function literal NextPackageUntil$1, is verified to accept exactly a final DONE and named in the contract through fnis)",
			"not mechanised: exactly-once delivery across requests, and the behaviour of stale lastPkgRx across Reset (whole-history statements)",
		},
	}
	properties["C08"] = &Property{
		ID:    "C08",
		Title: "Login succeeds exactly when the server accepted it",
		Pkgs:  []string{"./tds"},
		Funcs: []string{`^\(\*tds\.Channel\)\.(Login|Login\$1|NextPackage|handleSpecialPackage)$`},
		Assumptions: []string{
			"the reply script ghosts ($rxn, $rxtag, $rxst) are maintained by NextPackage's contract; NextPackageUntil is used through its contract (it returns the last package of the script)",
			"rsaEncrypt, generateSymmetricKey, LookupFieldFmtData and the package constructors are used through inferred mod-sets only (no functional contract); crypto/rsa is outside the generator",
			"the values received from Channel.packageCh satisfy the channel invariant checked at the sends",
			"context expiry and waiting time are not modelled",
		},
		Notes: []string{
			"proved (unbounded, every reply script): Login returns nil in the plain flow only if exactly two packages were consumed, LOGINACK with status SUCCEED then DONE with final status; in the encrypted flow only if the script starts LOGINACK(NEGOTIATE), MSG(SEC_ENCRYPT4), PARAMFMT, PARAMS, DONE and ends CAPABILITY, DONE(final); encryption methods below ENCRYPT4 are rejected; the acknowledgement filter accepts exactly LOGINACK(SUCCEED) and turns every other LOGINACK into an error; a packet size announced by the server is taken over only if it fits the packet header (8 < size <= 65535)",
			"not mechanised: the 'exactly when' direction (a valid acceptance yields success needs liveness of the reader goroutine), the parameter count/type checks as part of the script predicate, wrong message ids inside NextPackageUntil, and all timing statements",
		},
	}
	properties["C09"] = &Property{
		ID:    "C09",
		Title: "Passwords never cross the wire in clear when encryption is negotiated",
		Pkgs:  []string{"./tds"},
		Funcs: []string{`^\(\*tds\.LoginConfig\)\.pack$`, `^tds\.(writeString|writeBasedOnEndian)$`},
		Assumptions: []string{
			"bytes.Buffer contract (/verif/specs/bytes.spec): an append-only byte sink whose content is the ghost stream of the buffer object",
			"the RSA-OAEP part (what is sent instead of the password, fresh randomness, the session key) lives in crypto/rsa and crypto/rand and is outside the generator: not decided here",
		},
		Notes: []string{
			"proved (unbounded, all passwords and names): when one of the encrypting message ids is configured the 31 bytes of the login record's password slot (offsets 62..92, value and length byte) are zero; the remote-password slot (offsets 202..457) is zero in every configuration; in the plain flow the slot holds the password and its length (control, so the clause is not vacuous); oversized fields are rejected, never truncated or shifted (writeString writes nothing and fails when len(s) > padTo); host name, user name and TDS version sit at their fixed offsets",
			"not mechanised: absence of the password from error texts and from the packets of the negotiation phase (an information-flow statement over Login, rsaEncrypt and fmt), decryptability under the server key, freshness of randomness",
		},
	}
	properties["C11"] = &Property{
		ID:    "C11",
		Title: "Server messages and environment changes are surfaced exactly once",
		Pkgs:  []string{"./tds"},
		Funcs: []string{`^\(\*tds\.Channel\)\.(handleSpecialPackage|callEnvChangeHooks|callEEDHooks|RegisterEEDHooks|RegisterEnvChangeHooks|tryParsePackage|NextPackageUntil)$`, `^\(\*tds\.(EnvChangePackage|EnvChangePackageField)\)\.ReadFrom$`},
		Assumptions: []string{
			"hooks are client code that cannot reach unexported library state (functype contracts of EEDHook / EnvChangeHook)",
			"strconv.Atoi is modelled natively (result unconstrained on success)",
			"goroutines are not modelled: hooks registered concurrently with a response are outside the statement",
		},
		Notes: []string{
			"proved (unbounded, any number of hooks and members): callEEDHooks / callEnvChangeHooks invoke every registered hook exactly once per call (ghost invocation counters, loop invariant); handleSpecialPackage consumes environment changes and informational messages (never passes them on), passes every other package, calls the message hooks exactly once for a non-informational message and never for an informational one, and applies a packet size only if it fits the packet header; tryParsePackage never puts an environment change or an informational message on the package channel and calls the hooks before the package is queued; nil hooks are rejected at registration",
			"proved (unbounded): NextPackageUntil returns a package together with an error only when the consumer's callback returned exactly io.EOF, and then returns that io.EOF unchanged ($cbeof ghost set after the callback call), so a callback error that merely wraps io.EOF takes the aggregation path",
			"not mechanised: that the error returned by NextPackageUntil after a callback failure carries all messages received so far in order and still matches the callback's error (errors.Is through EEDError.Unwrap/Is is outside the generator's error model), and the per-member count of environment change hook invocations (a product, nonlinear)",
		},
	}
	c04bound := "integers: every INT1 and INT2 value, 22 boundary + 2000 (quick) / 50000 (thorough) seeded 64-bit patterns reused for INT4/INT8/UINT*/FLT* (bit patterns incl. NaN, Inf, -0) and MONEY/SHORTMONEY; DECN/NUMN for precisions 1..38 with boundary magnitudes and both signs; every 3rd (quick) / every (thorough) day of 0001-01-01..9999-12-31 for the calendar helpers and DATE, sampled BIGDATETIMEN / DATETIME ticks per day; SHORTDATE days x 6 minute values; every 997th (quick) / 7th (thorough) TIME tick; 300 random binary / character / unitext strings over all planes; NULL for every nullable type; reference codec written independently (own civil-date arithmetic, math/big, explicit byte composition)"
	properties["C04"] = &Property{
		ID:    "C04",
		Level: "other",
		Lemmas: []string{`^asetypes\.(moneyRoundTrip|recompose32)$`},
		Title: "Field values survive encoding and decoding unchanged",
		Pkgs:  []string{"./asetypes", "./tds"},
		Funcs: []string{`^\(asetypes\.DataType\)\.(GoValue|goValue|Bytes)$`, `^\(\*asetypes\.Decimal\)\.SetInt64$`, `^\(asetypes\.Decimal\)\.Int$`, `^\(\*tds\.fieldDataBase\)\.(readFrom|readFromStatus)$`, `^\(tds\.fieldDataBase\)\.(writeTo|writeToStatus)$`, `^\(\*tds\.fieldDataPrecisionScale\)\.ReadFrom$`},
		After: func(P *Prog, rep *Report, tier string) {
			runIsland(rep, P.repoDir, "value-codec", "asetypes", "c04_island_test.go", "TestIslandC04", c04bound, 300, "VERIF_TIER="+tier)
			runIsland(rep, P.repoDir, "package-roundtrip", "tds", "c06_island_test.go", "TestIslandC06",
				"parameter formats and data over 20 typed values (all client-side data types incl. NULLs, decimals, money), narrow and wide, status bits {0, 8, 0x20, 0x28}, 1..3 fields per package, written by the real WriteTo and read back by LookupPackage/LastPkg/ReadFrom", 120)
		},
		Assumptions: []string{
			"encoding/binary.Read/Write, math/big, time and the float expressions of asetime are library code outside the generator; the value-level round trips are therefore decided only on the bounded domain of the island (labelled bounded)",
			"contracts of the BytesChannel (C15) for the field readers and writers",
		},
		Notes: []string{
			"proved (unbounded): the safety obligations of the decoders (no index / slice / nil failure for any byte string of the declared length), that the field readers report a dry stream as ErrNotEnoughBytes, and that the field writers only append to the output stream; for MONEY / MONEYN(8): Bytes writes the eight bytes of the high word then the low word of the 1/10000 count (byte by byte, little-endian order), goValue decodes them to signed64(high * 2^32 + low), and the two arithmetic lemmas (byte recomposition, signed64(hi32(x) * 2^32 + lo32(x)) == x for every int64 x) close the round trip; NULL (nil) encodes to zero length",
			"unclaimed in Bytes: obligations that only hold for well-typed client input (value of the Go type the data type expects, non-negative length)",
			"bounded: exact round trip of every data type's values and of values travelling inside parameter packages, as listed in the bound",
		},
	}
	properties["C05"] = &Property{
		ID:    "C05",
		Level: "other",
		Title: "Data type wire encodings match the TDS 5.0 layouts",
		Pkgs:  []string{"./asetypes"},
		Funcs: []string{`^\(asetypes\.DataType\)\.(GoValue|goValue|Bytes)$`, `^\(\*asetypes\.Decimal\)\.SetInt64$`, `^\(asetypes\.Decimal\)\.Int$`},
		Lemmas: []string{`^asetypes\.(moneyRoundTrip|recompose32)$`},
		After: func(P *Prog, rep *Report, tier string) {
			runIsland(rep, P.repoDir, "value-codec", "asetypes", "c04_island_test.go", "TestIslandC04", c04bound, 300, "VERIF_TIER="+tier)
		},
		Assumptions: []string{
			"the layouts are compared with a reference codec written for the check from the property text (little-endian integers and IEEE bit patterns, money high word then low word, numeric sign byte plus big-endian magnitude, days since 1900-01-01, 1/300 s ticks, minutes, microseconds since 0000-01-01 / midnight, UTF-16LE); the reference itself is trusted",
			"encoding/binary, math/big, time are outside the generator: the layout claims are decided only on the bounded domain of the island (labelled bounded); for the calendar helpers the domain (every day of years 1..9999) is covered completely in the thorough tier",
		},
		Notes: []string{
			"proved (unbounded): decoder safety for every byte string of the declared length; the MONEY layout (high word then low word of the signed 64-bit count, each little-endian) in both directions",
			"bounded: byte-for-byte agreement of DataType.Bytes with the reference codec and agreement of GoValue with the reference decoding; TimeToMicroseconds / MicrosecondsToTime / DurationFromDateTime against own civil-date arithmetic for every day (thorough) or every third day (quick) of years 1..9999",
		},
	}
	properties["C06"] = &Property{
		ID:    "C06",
		Title: "Package encodings are self-consistent and match their wire layout",
		Pkgs:  []string{"./tds"},
		Funcs: []string{
			`^\(tds\.(CapabilityPackage|CurClosePackage|CurDeletePackage|CurFetchPackage|CurInfoPackage|CurOpenPackage|CurUpdatePackage|EEDPackage|EnvChangePackage|ErrorPackage|LoginAckPackage|OptionCmdPackage|MsgPackage|DonePackage|ReturnStatusPackage|LogoutPackage)\)\.WriteTo$`,
			`^\(\*tds\.LanguagePackage\)\.WriteTo$`, `^\(tds\.EnvChangePackageField\)\.WriteTo$`,
			`^\(\*tds\.(EnvChangePackage|EnvChangePackageField|ErrorPackage|EEDPackage|DonePackage|ReturnStatusPackage)\)\.ReadFrom$`,
			`^\(\*tds\.LoginConfig\)\.pack$`, `^tds\.(writeString|writeBasedOnEndian)$`,
		},
		After: func(P *Prog, rep *Report, tier string) {
			runIsland(rep, P.repoDir, "package-roundtrip", "tds", "c06_island_test.go", "TestIslandC06",
				"DONE (7 status values x 5 counts), RETURNSTATUS, LOGOUT, MSG (5 ids x 2 status), EED / ERROR / ENVCHANGE (1 and 3 members) / LANGUAGE over 6 x 4 boundary strings (empty, 1, 30, 255 bytes, non-ASCII), DYNAMIC narrow and wide, LOGINACK, PARAMFMT + PARAMS narrow and wide over 20 typed values x 4 status combinations x 1..3 fields: written by the real WriteTo into a real PacketQueue and read back through LookupPackage / LastPkg / ReadFrom; fields compared, bytes consumed exactly", 120)
		},
		Assumptions: []string{
			"BytesChannel write contracts (C15): typed writers append little-endian bytes to the output stream",
			"bytes.Buffer contract for the login record",
			"packages only a server sends that the library cannot write (ROWFMT, ROW, ...) and packages LookupPackage does not know (OPTIONCMD) have no round trip inside the library; their independent decoding is not covered",
		},
		Notes: []string{
			"proved (unbounded, all field values that fit the width of the length field): the length field written after the token byte equals the number of bytes that follow it for CURCLOSE, CURDELETE, CURFETCH, CURINFO, CUROPEN, CURUPDATE, EED, ERROR, OPTIONCMD (16 bit), LANGUAGE (32 bit) and MSG (8 bit); DONE has the fixed size 9; every writer only appends; the login record has its fixed layout with oversized fields rejected (see C09); an environment change member is always read into a zeroed member",
			"bounded: read-back equality for the package types listed in the bound",
			"unclaimed: the length clause of ENVCHANGE (needs a sum invariant the solvers time out on) and LOGINACK (the length is a struct field supplied by the caller); CAPABILITY (the length is a sum over a map that is iterated twice in unrelated orders)",
		},
	}
	properties["C12"] = &Property{
		ID:    "C12",
		Title: "Logical channels are isolated and correctly routed under concurrency",
		Pkgs:  []string{"./tds"},
		Funcs: []string{`^\(\*tds\.Conn\)\.(getValidChannelId|NewChannel)$`, `^\(\*tds\.Channel\)\.(sendPacket|WritePacket)$`, `^tds\.NewPacketQueue$`},
		Assumptions: []string{
			"SEQUENTIAL ONLY: goroutines, interleavings and data races are not modelled by the generator; every statement below is about one call executing alone. The property's quantifier over interleavings (and the race-freedom clause) is not decided.",
			"the routing step itself (Conn.ReadFrom looks the channel up in a map of pointers by the id in the packet header) is outside the generator's subset and not under contract",
			"sync/atomic and sync.RWMutex are modelled as atomic / no-ops",
		},
		Notes: []string{
			"proved (sequential, unbounded): getValidChannelId returns an id in 0..65535 that is not a key of the connection's channel map and advances the counter past it; NewChannel returns a fresh channel wired to the connection whose id was not in use, and for a logical channel (id > 0) succeeds only after a header-only acknowledgement was received as the first package; every outgoing packet of a logical channel carries the channel id and the packet numbers count up modulo 256; header-only packets are queued as *HeaderOnlyPackage, the type NewChannel expects",
			"not decided: distinct ids under concurrent NewChannel calls (getValidChannelId reads the counter non-atomically before incrementing it), ordering of deliveries across goroutines, absence of data races",
		},
	}
	properties["C13"] = &Property{
		ID:    "C13",
		Title: "Cancelled or closed channels never block and never deliver",
		Pkgs:  []string{"./tds"},
		Funcs: []string{`^\(\*tds\.Channel\)\.(NextPackage|NextPackageUntil|QueuePackage|SendRemainingPackets|SendPackage|WritePacket|Close|Reset)$`, `^\(\*tds\.Conn\)\.Close$`},
		Assumptions: []string{
			"SEQUENTIAL ONLY: goroutines, blocking, time and context cancellation are not modelled (a select is an arbitrary choice among its cases); the never-blocks / returns-promptly / bounded-time clauses of the property are not decided",
			"sync.RWMutex is modelled as a no-op; the recursive read lock in SendRemainingPackets -> Reset and sends on the package channel under the read lock are outside what the contracts express",
		},
		Notes: []string{
			"proved (sequential, unbounded): on a closed channel NextPackage, QueuePackage, SendRemainingPackets and SendPackage return an error matching ErrChannelClosed, deliver no package and leave the wire and the transmit queue untouched; WritePacket puts nothing on the package channel of a closed channel; Close marks the channel closed and closes the package channel exactly once (a second Close reports ErrChannelClosed); Conn.Close closes the transport on every path, whatever the state of the connection context (its per-channel obligations, which need facts about the pointers stored in the channel map, are unclaimed)",
			"proved (sequential, unbounded): every receive NextPackageUntil performs — the drains after a callback error and with a nil callback included — waits on the context the caller passed ($waitctx ghost recorded by NextPackage's contract), so cancelling the caller's context reaches a call that is draining an abandoned response",
			"not decided: promptness after cancellation, that a send with a cancelled context writes nothing (needs the link between a context's Done channel and its Err, not modelled), bounded-time Close, that Conn.Close also closes every channel and ends the reader",
		},
	}
}
