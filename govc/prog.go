package main

// Program loading, function keys, type tags, static mod-set inference.

import (
	"fmt"
	"go/token"
	"go/types"
	"os"
	"path/filepath"
	"sort"
	"strings"

	"golang.org/x/tools/go/packages"
	"golang.org/x/tools/go/ssa"
	"golang.org/x/tools/go/ssa/ssautil"
)

const modulePath = "github.com/SAP/go-dblib"

type Prog struct {
	fset     *token.FileSet
	pkgs     []*packages.Package
	prog     *ssa.Program
	spkgs    []*ssa.Package
	funcs    map[string]*ssa.Function
	db       *ContractDB
	tags     map[string]int
	tagTypes []types.Type
	modsets  map[*ssa.Function]map[string]bool
	inRepo   map[*ssa.Function]bool
	repoDir  string
	errGlobals map[string]bool // error-typed globals referenced in repo code
	implCache map[string][]*ssa.Function
	allNamed []types.Type
	constGlobals map[string]bool // globals never written outside init
	loopCount map[*ssa.Function]int
	autoInv   map[string]map[string]bool
	freshKeyMemo map[*ssa.Function]map[string]bool
	knownHeaps map[string]*HeapInfo
	houdiniDone map[*ssa.Function]bool
	callC     map[*ssa.Function]*Contract
	houdiniPhase int
	hints     map[string][]string
	rebase    bool
	ginit     map[string]*gInit
	// hooks installed by property checks
	allocHook  func(fr *Frame, st *State, x ssa.Instruction, n Term)
	lockHook   func(fr *Frame, st *State, name, mode string, acquire bool, instr ssa.Instruction)
	sendHook   func(fr *Frame, st *State, x *ssa.Send, v Val)
	blockHook  func(fr *Frame, st *State, what string, instr ssa.Instruction)
	selectHook func(fr *Frame, st *State, x *ssa.Select, idx Term)
	rangeHook  func(fr *Frame, st *State, x *ssa.Next, rs *rangeState, ok Term, k Val)
}

func shortPkg(path string) string {
	if path == modulePath {
		return "dblib"
	}
	return strings.TrimPrefix(path, modulePath+"/")
}

func funcKey(fn *ssa.Function) string {
	s := fn.String()
	s = strings.ReplaceAll(s, modulePath+"/", "")
	s = strings.ReplaceAll(s, modulePath+".", "dblib.")
	return s
}

func loadProg(repoDir string, patterns []string, specDirs []string) (*Prog, error) {
	cfg := &packages.Config{
		Mode:       packages.LoadAllSyntax,
		Dir:        repoDir,
		BuildFlags: []string{"-tags=verif"},
		Env:        append(os.Environ(), "GOFLAGS=-mod=mod", "GOPROXY=off", "GOSUMDB=off", "GOTOOLCHAIN=local"),
	}
	pkgs, err := packages.Load(cfg, patterns...)
	if err != nil {
		return nil, err
	}
	nerr := 0
	packages.Visit(pkgs, nil, func(p *packages.Package) {
		for _, e := range p.Errors {
			fmt.Fprintln(os.Stderr, "load error:", e)
			nerr++
		}
	})
	if nerr > 0 {
		return nil, fmt.Errorf("%d package load errors", nerr)
	}
	prog, spkgs := ssautil.AllPackages(pkgs, ssa.GlobalDebug|ssa.SanityCheckFunctions)
	prog.Build()
	P := &Prog{fset: pkgs[0].Fset, pkgs: pkgs, prog: prog, spkgs: spkgs, funcs: map[string]*ssa.Function{},
		db: newContractDB(), tags: map[string]int{}, modsets: map[*ssa.Function]map[string]bool{},
		inRepo: map[*ssa.Function]bool{}, repoDir: repoDir, errGlobals: map[string]bool{}, implCache: map[string][]*ssa.Function{},
		constGlobals: map[string]bool{}, loopCount: map[*ssa.Function]int{}}
	for fn := range ssautil.AllFunctions(prog) {
		if fn.Pkg == nil && fn.Synthetic == "" {
			continue
		}
		k := funcKey(fn)
		if old, ok := P.funcs[k]; ok && old != fn {
			// wrappers can collide with real functions by name; prefer non-synthetic
			if old.Synthetic == "" {
				continue
			}
		}
		P.funcs[k] = fn
		if pk := fnPkg(fn); pk != nil && strings.HasPrefix(pk.Path(), modulePath) {
			P.inRepo[fn] = true
		}
	}
	// contracts: every contracts_verif.go in the loaded in-repo packages
	for _, p := range allPackages(pkgs) {
		if !strings.HasPrefix(p.PkgPath, modulePath) {
			continue
		}
		for _, f := range p.GoFiles {
			if filepath.Base(f) == "contracts_verif.go" {
				P.db.loadFile(f, shortPkg(p.PkgPath))
			}
		}
		for _, n := range p.Types.Scope().Names() {
			if tn, ok := p.Types.Scope().Lookup(n).(*types.TypeName); ok {
				P.allNamed = append(P.allNamed, tn.Type())
			}
		}
	}
	for _, d := range specDirs {
		files, _ := filepath.Glob(filepath.Join(d, "*.spec"))
		sort.Strings(files)
		for _, f := range files {
			P.db.loadFile(f, strings.TrimSuffix(filepath.Base(f), ".spec"))
		}
	}
	P.db.resolveLikes()
	P.expandWholeMods()
	if len(P.db.Errors) > 0 {
		return P, fmt.Errorf("contract errors:\n  %s", strings.Join(P.db.Errors, "\n  "))
	}
	P.scanGlobals()
	return P, nil
}

func allPackages(roots []*packages.Package) []*packages.Package {
	var out []*packages.Package
	packages.Visit(roots, nil, func(p *packages.Package) { out = append(out, p) })
	sort.Slice(out, func(i, j int) bool { return out[i].PkgPath < out[j].PkgPath })
	return out
}

func fnPkg(fn *ssa.Function) *types.Package {
	if fn.Pkg != nil {
		return fn.Pkg.Pkg
	}
	if fn.Object() != nil {
		return fn.Object().Pkg()
	}
	if fn.Parent() != nil {
		return fnPkg(fn.Parent())
	}
	// synthetic wrapper: use receiver's package
	if fn.Signature.Recv() != nil {
		t := fn.Signature.Recv().Type()
		if p, ok := t.(*types.Pointer); ok {
			t = p.Elem()
		}
		if n, ok := t.(*types.Named); ok && n.Obj().Pkg() != nil {
			return n.Obj().Pkg()
		}
	}
	return nil
}

func (P *Prog) tagOf(t types.Type) int {
	k := typeName(t)
	if id, ok := P.tags[k]; ok {
		return id
	}
	id := len(P.tags) + 1
	P.tags[k] = id
	P.tagTypes = append(P.tagTypes, t)
	return id
}

func (P *Prog) pos(p token.Pos) string {
	if !p.IsValid() {
		return ""
	}
	ps := P.fset.Position(p)
	return fmt.Sprintf("%s:%d", strings.TrimPrefix(ps.Filename, P.repoDir+"/"), ps.Line)
}

// scanGlobals finds error-typed globals and globals written outside init.
func (P *Prog) scanGlobals() {
	written := map[string]bool{}
	for fn := range P.inRepo {
		for _, b := range fn.Blocks {
			for _, in := range b.Instrs {
				for _, op := range in.Operands(nil) {
					if g, ok := (*op).(*ssa.Global); ok {
						if isIface(g.Type().(*types.Pointer).Elem()) && types.Identical(g.Type().(*types.Pointer).Elem(), types.Universe.Lookup("error").Type()) {
							P.errGlobals[globalName(g)] = true
						}
					}
				}
				if s, ok := in.(*ssa.Store); ok {
					if g, ok := rootGlobal(s.Addr); ok && fn.Name() != "init" {
						written[globalName(g)] = true
					}
				}
				// address of global passed somewhere other than load: conservative
				if c, ok := in.(ssa.CallInstruction); ok {
					for _, a := range c.Common().Args {
						if g, ok := rootGlobal(a); ok {
							written[globalName(g)] = true
						}
					}
				}
			}
		}
	}
	for _, sp := range P.spkgs {
		if sp == nil {
			continue
		}
		for _, m := range sp.Members {
			if g, ok := m.(*ssa.Global); ok {
				if !written[globalName(g)] {
					P.constGlobals[globalName(g)] = true
				}
			}
		}
	}
}

func rootGlobal(v ssa.Value) (*ssa.Global, bool) {
	for {
		switch x := v.(type) {
		case *ssa.Global:
			return x, true
		case *ssa.FieldAddr:
			v = x.X
		case *ssa.IndexAddr:
			v = x.X
		default:
			return nil, false
		}
	}
}

func globalName(g *ssa.Global) string {
	if g.Pkg == nil {
		return g.Name()
	}
	return shortPkg(g.Pkg.Pkg.Path()) + "." + g.Name()
}

// ---------------------------------------------------------------------------
// static keys of memory written through an address value

func structFieldKeys(t types.Type, out map[string]bool) {
	st, ok := under(t).(*types.Struct)
	if !ok {
		return
	}
	tn := typeName(t)
	for i := 0; i < st.NumFields(); i++ {
		f := st.Field(i)
		if isStruct(f.Type()) {
			structFieldKeys(f.Type(), out)
		} else {
			out["F:"+tn+"."+f.Name()] = true
		}
	}
}

// valueKeys: keys of all memory that a store of a value of type t at an address of the given kind touches.
func addrKeys(addr ssa.Value, out map[string]bool) {
	pt, ok := under(addr.Type()).(*types.Pointer)
	if !ok {
		return
	}
	el := pt.Elem()
	switch a := addr.(type) {
	case *ssa.FieldAddr:
		st := under(a.X.Type().(*types.Pointer).Elem()).(*types.Struct)
		f := st.Field(a.Field)
		if isStruct(f.Type()) {
			structFieldKeys(f.Type(), out)
		} else {
			out["F:"+typeName(a.X.Type().(*types.Pointer).Elem())+"."+f.Name()] = true
		}
		return
	case *ssa.IndexAddr:
		if isStruct(el) {
			structFieldKeys(el, out)
		} else {
			out["A:"+typeName(el)] = true
		}
		return
	case *ssa.Global:
		out["G:"+globalName(a)] = true
		if isStruct(el) {
			structFieldKeys(el, out)
		}
		return
	}
	if isStruct(el) {
		structFieldKeys(el, out)
	} else if arr, ok := under(el).(*types.Array); ok {
		if isStruct(arr.Elem()) {
			structFieldKeys(arr.Elem(), out)
		} else {
			out["A:"+typeName(arr.Elem())] = true
		}
	} else {
		out["C:"+typeName(el)] = true
	}
}

// instrKeys adds the keys an instruction may write directly (not via calls).
// rootAlloc: is the address derived from an allocation made in this function?
func rootAlloc(v ssa.Value) bool {
	for {
		switch x := v.(type) {
		case *ssa.Alloc:
			return true
		case *ssa.FieldAddr:
			v = x.X
		case *ssa.IndexAddr:
			if _, isPtr := under(x.X.Type()).(*types.Pointer); !isPtr {
				return false
			}
			v = x.X
		default:
			return false
		}
	}
}

func (P *Prog) instrKeys(in ssa.Instruction, out map[string]bool) {
	P.instrKeys2(in, out, true)
}

// instrKeys2: forLoop = false computes what is visible to callers (stores into
// objects allocated by the function itself are not).
func (P *Prog) instrKeys2(in ssa.Instruction, out map[string]bool, forLoop bool) {
	switch x := in.(type) {
	case *ssa.Store:
		if !forLoop && rootAlloc(x.Addr) {
			return
		}
		addrKeys(x.Addr, out)
	case *ssa.MapUpdate:
		out["M:"+typeName(x.Map.Type())] = true
	case *ssa.Alloc:
		// zero-initialisation of a fresh object: not visible to anyone else,
		// but inside loops the cell is re-initialised each iteration.
		if forLoop {
			addrKeys(x, out)
		}
	case *ssa.Send:
		out["CH:"+typeName(x.Chan.Type())] = true
	case *ssa.Select:
		for _, s := range x.States {
			out["CH:"+typeName(s.Chan.Type())] = true
		}
	case *ssa.UnOp:
		if x.Op == token.ARROW {
			out["CH:"+typeName(x.X.Type())] = true
		}
	case *ssa.Range, *ssa.Next:
		out["GH:$iter"] = true
	}
	if c, ok := in.(ssa.CallInstruction); ok {
		cc := c.Common()
		if b, ok := cc.Value.(*ssa.Builtin); ok {
			switch b.Name() {
			case "copy", "append":
				if sl, ok := under(cc.Args[0].Type()).(*types.Slice); ok {
					if isStruct(sl.Elem()) {
						structFieldKeys(sl.Elem(), out)
					} else {
						out["A:"+typeName(sl.Elem())] = true
						for _, l := range shape(sl.Elem()) {
							_ = l
						}
					}
				}
			case "delete":
				out["M:"+typeName(cc.Args[0].Type())] = true
			case "close":
				out["CH:"+typeName(cc.Args[0].Type())] = true
			}
		}
		// interior pointers escaping into calls may be written by the callee;
		// for in-repo static callees the callee's own mod-set already says so.
		if sc := cc.StaticCallee(); sc != nil && P.inRepo[sc] && sc.Blocks != nil {
			return
		}
		for _, a := range cc.Args {
			switch a.(type) {
			case *ssa.FieldAddr, *ssa.IndexAddr, *ssa.Alloc, *ssa.Global:
				if isPointer(a.Type()) {
					addrKeys(a, out)
				}
			}
		}
	}
}

// modset returns the keys fn may write, transitively. "*" means everything.
func (P *Prog) modset(fn *ssa.Function) map[string]bool {
	if m, ok := P.modsets[fn]; ok {
		return m
	}
	// fixpoint over the call graph reachable from fn (SCC-agnostic iteration)
	visiting := map[*ssa.Function]bool{}
	var order []*ssa.Function
	var dfs func(f *ssa.Function)
	callees := map[*ssa.Function][]*ssa.Function{}
	own := map[*ssa.Function]map[string]bool{}
	dfs = func(f *ssa.Function) {
		if visiting[f] {
			return
		}
		visiting[f] = true
		o := map[string]bool{}
		own[f] = o
		if m, ok := P.modsets[f]; ok {
			for k := range m {
				o[k] = true
			}
			order = append(order, f)
			return
		}
		if c := P.contractFor(f); c != nil && c.Trusted {
			P.contractKeys(c, o)
			order = append(order, f)
			return
		}
		if f.Blocks == nil || !P.inRepo[f] {
			for k := range P.externKeys(f) {
				o[k] = true
			}
			order = append(order, f)
			return
		}
		if c := P.contractFor(f); c != nil {
			P.contractKeys(c, o)
		}
		for _, ic := range P.ifaceContractsFor(f) {
			P.contractKeys(ic, o)
		}
		for _, b := range f.Blocks {
			for _, in := range b.Instrs {
				P.instrKeys2(in, o, false)
				if c, ok := in.(ssa.CallInstruction); ok {
					for _, g := range P.staticCallees(c.Common(), o) {
						callees[f] = append(callees[f], g)
						dfs(g)
					}
				}
				if mc, ok := in.(*ssa.MakeClosure); ok {
					_ = mc
				}
			}
		}
		order = append(order, f)
	}
	dfs(fn)
	changed := true
	for changed {
		changed = false
		for _, f := range order {
			for _, g := range callees[f] {
				for k := range own[g] {
					if !own[f][k] {
						own[f][k] = true
						changed = true
					}
				}
			}
		}
	}
	for _, f := range order {
		if _, ok := P.modsets[f]; !ok {
			P.modsets[f] = own[f]
		}
	}
	return P.modsets[fn]
}

// contractKeys adds ghost keys named in a contract's modifies / ghost updates.
func (P *Prog) contractKeys(c *Contract, out map[string]bool) {
	for _, m := range c.Modifies {
		if m.Whole {
			out[m.Key] = true
			continue
		}
		if g := ghostNameOf(m.E); g != "" {
			if gf := P.db.ghostByName(g); gf != nil {
				out["GH:"+gf.Owner+"."+gf.Name] = true
			}
		}
	}
	for _, g := range c.Ghost {
		if n := ghostNameOf(g.LHS); n != "" {
			if gf := P.db.ghostByName(n); gf != nil {
				out["GH:"+gf.Owner+"."+gf.Name] = true
			}
		}
	}
}

func ghostNameOf(e SExpr) string {
	switch x := e.(type) {
	case *SField:
		if strings.HasPrefix(x.Name, "$") {
			return x.Name
		}
	case *SIndex:
		return ghostNameOf(x.X)
	}
	return ""
}

func (db *ContractDB) ghostByName(name string) *GhostField {
	for _, g := range db.Ghosts {
		if g.Name == name {
			return g
		}
	}
	return nil
}

func (P *Prog) contractFor(fn *ssa.Function) *Contract {
	return P.db.Funcs[funcKey(fn)]
}

// staticCallees resolves the possible in-program callees of a call for
// mod-set purposes; unknown function values add "*" to out.
func (P *Prog) staticCallees(cc *ssa.CallCommon, out map[string]bool) []*ssa.Function {
	if cc.IsInvoke() {
		// interface contract wins
		key := "iface:" + typeName(cc.Value.Type()) + "." + cc.Method.Name()
		if c, ok := P.db.Funcs[key]; ok {
			P.contractKeys(c, out)
			if c.HasMod {
				for _, m := range c.Modifies {
					if !m.Whole && ghostNameOf(m.E) == "" {
						// typed at call time; conservatively add elems of byte slices
						if call, ok := m.E.(*SCall); ok && call.Fun == "elems" {
							out["A:byte"] = true
						}
					}
				}
				return nil
			}
		}
		return P.implementations(cc.Value.Type(), cc.Method)
	}
	switch v := cc.Value.(type) {
	case *ssa.Function:
		return []*ssa.Function{v}
	case *ssa.MakeClosure:
		return []*ssa.Function{v.Fn.(*ssa.Function)}
	case *ssa.Builtin:
		return nil
	}
	if c, ok := P.db.Funcs["functype:"+typeName(cc.Value.Type())]; ok {
		P.contractKeys(c, out)
		return nil
	}
	if pv, ok := cc.Value.(*ssa.Parameter); ok && pv.Parent() != nil {
		if c, ok := P.db.Funcs["paramfunc:"+funcKey(pv.Parent())+"."+pv.Name()]; ok {
			P.contractKeys(c, out)
			return nil
		}
	}
	// a function value loaded from a struct field that has an (assumed) contract
	if u, ok := cc.Value.(*ssa.UnOp); ok {
		if fa, ok := u.X.(*ssa.FieldAddr); ok {
			if pt, ok := under(fa.X.Type()).(*types.Pointer); ok {
				if st, ok := under(pt.Elem()).(*types.Struct); ok {
					key := "fieldfunc:" + typeName(pt.Elem()) + "." + st.Field(fa.Field).Name()
					if c, ok := P.db.Funcs[key]; ok {
						P.contractKeys(c, out)
						return nil
					}
				}
			}
		}
	}
	out["*"] = true
	return nil
}

// implementations lists the in-repo methods implementing iface.method.
func (P *Prog) implementations(iface types.Type, m *types.Func) []*ssa.Function {
	key := typeName(iface) + "." + m.Name()
	if r, ok := P.implCache[key]; ok {
		return r
	}
	it, ok := under(iface).(*types.Interface)
	var res []*ssa.Function
	if ok {
		seen := map[*ssa.Function]bool{}
		for _, t := range P.allNamed {
			if isIface(t) {
				continue
			}
			for _, tt := range []types.Type{t, types.NewPointer(t)} {
				if !types.Implements(tt, it) {
					continue
				}
				sel := P.prog.MethodSets.MethodSet(tt).Lookup(m.Pkg(), m.Name())
				if sel == nil {
					continue
				}
				f := P.prog.MethodValue(sel)
				if f != nil && !seen[f] {
					seen[f] = true
					res = append(res, f)
				}
			}
		}
	}
	sort.Slice(res, func(i, j int) bool { return funcKey(res[i]) < funcKey(res[j]) })
	P.implCache[key] = res
	return res
}

// implInfo describes one implementation of an interface method.
type implInfo struct {
	fn     *ssa.Function // function in the method set (may be a promotion wrapper)
	target *ssa.Function // declared method the wrapper forwards to (== fn if none)
	recvT  types.Type    // dynamic type stored in the interface (T or *T)
	path   []string      // embedded field path from the receiver to the target's receiver
}

func (P *Prog) implInfos(iface types.Type, m *types.Func) []implInfo {
	it, ok := under(iface).(*types.Interface)
	if !ok {
		return nil
	}
	var res []implInfo
	for _, t := range P.allNamed {
		if isIface(t) {
			continue
		}
		for _, tt := range []types.Type{t, types.NewPointer(t)} {
			if !types.Implements(tt, it) {
				continue
			}
			if _, isP := tt.(*types.Pointer); isP && types.Implements(t, it) {
				continue // value type already implements; the interface holds whichever was boxed. keep value form only
			}
			sel := P.prog.MethodSets.MethodSet(tt).Lookup(m.Pkg(), m.Name())
			if sel == nil {
				continue
			}
			f := P.prog.MethodValue(sel)
			if f == nil {
				continue
			}
			info := implInfo{fn: f, target: f, recvT: tt}
			if obj, ok := sel.Obj().(*types.Func); ok {
				if tf := P.prog.FuncValue(obj); tf != nil {
					info.target = tf
				}
			}
			// embedded path
			cur := t
			idx := sel.Index()
			okPath := true
			for _, fi := range idx[:len(idx)-1] {
				st, isS := under(cur).(*types.Struct)
				if !isS {
					okPath = false
					break
				}
				f := st.Field(fi)
				info.path = append(info.path, f.Name())
				cur = f.Type()
				if _, isPtr := under(cur).(*types.Pointer); isPtr {
					okPath = false
					break
				}
			}
			if !okPath {
				info.path = nil
				info.target = f
			}
			res = append(res, info)
		}
	}
	sort.Slice(res, func(i, j int) bool { return funcKey(res[i].fn) < funcKey(res[j].fn) })
	return res
}

// externKeys: what an external (non-repo) function may write. Defaults to
// nothing; functions taking pointers/slices that they fill are listed.
func (P *Prog) externKeys(f *ssa.Function) map[string]bool {
	out := map[string]bool{}
	k := funcKey(f)
	switch k {
	case "(*bytes.Buffer).ReadFrom", "(*bytes.Buffer).Write", "(*bytes.Buffer).WriteByte", "(*bytes.Buffer).WriteString", "encoding/binary.Write":
		out["GH:$buf"] = true
	case "crypto/rand.Read", "io.ReadFull":
		out["A:byte"] = true
	}
	return out
}

// expandWholeMods: "all T.f" where f is a struct-typed field also covers the
// fields of that struct (their heaps carry the key of the nested type).
func (P *Prog) expandWholeMods() {
	named := map[string]types.Type{}
	for _, t := range P.allNamed {
		named[typeName(t)] = t
	}
	var expand func(key string, seen map[string]bool) []string
	expand = func(key string, seen map[string]bool) []string {
		if !strings.HasPrefix(key, "F:") || seen[key] {
			return nil
		}
		seen[key] = true
		i := strings.LastIndex(key, ".")
		t, ok := named[key[2:i]]
		if !ok {
			return nil
		}
		st, ok := under(t).(*types.Struct)
		if !ok {
			return nil
		}
		var out []string
		for j := 0; j < st.NumFields(); j++ {
			f := st.Field(j)
			if f.Name() != key[i+1:] {
				continue
			}
			if fs, ok := under(f.Type()).(*types.Struct); ok {
				if _, isNamed := f.Type().(*types.Named); isNamed {
					for k := 0; k < fs.NumFields(); k++ {
						nk := "F:" + typeName(f.Type()) + "." + fs.Field(k).Name()
						out = append(out, nk)
						out = append(out, expand(nk, seen)...)
					}
				}
			}
		}
		return out
	}
	for _, c := range P.db.Funcs {
		var extra []ModItem
		have := map[string]bool{}
		for _, m := range c.Modifies {
			if m.Whole {
				have[m.Key] = true
			}
		}
		for _, m := range c.Modifies {
			if m.Whole {
				for _, k := range expand(m.Key, map[string]bool{}) {
					if !have[k] {
						have[k] = true
						extra = append(extra, ModItem{Whole: true, Key: k, Src: m.Src})
					}
				}
			}
		}
		c.Modifies = append(c.Modifies, extra...)
	}
}

// freshKeys: heaps the function (or its static in-repo callees) writes only at objects it
// allocated itself. Callers do not see these writes on pre-existing objects, but the fields
// of the fresh objects a callee hands back are not the entry values of those heaps.
func (P *Prog) freshKeys(fn *ssa.Function) map[string]bool {
	if P.freshKeyMemo == nil {
		P.freshKeyMemo = map[*ssa.Function]map[string]bool{}
	}
	if m, ok := P.freshKeyMemo[fn]; ok {
		return m
	}
	out := map[string]bool{}
	P.freshKeyMemo[fn] = out
	if fn.Blocks == nil || !P.inRepo[fn] {
		return out
	}
	for _, b := range fn.Blocks {
		for _, in := range b.Instrs {
			switch x := in.(type) {
			case *ssa.Store:
				if rootAlloc(x.Addr) {
					addrKeys(x.Addr, out)
				}
			case *ssa.Alloc:
				if x.Heap {
					addrKeys(x, out)
				}
			}
			if c, ok := in.(ssa.CallInstruction); ok {
				dummy := map[string]bool{}
				for _, g := range P.staticCallees(c.Common(), dummy) {
					for k := range P.freshKeys(g) {
						out[k] = true
					}
				}
			}
		}
	}
	return out
}
