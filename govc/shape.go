package main

// Go types -> flattened SMT leaves ("shapes"), values and static pointer info.

import (
	"fmt"
	"go/types"
	"strings"
)

// Leaf describes one SMT-level component of a Go value.
type Leaf struct {
	Suffix string // "", ".arr", ".off", ".len", ".cap", ".tag", ".pl", or field path
	Sort   Sort
	T      types.Type // Go type of the value this leaf belongs to (innermost)
	Role   string     // int | bool | ref | str | float | arr | off | len | cap | tag | pl | fn
}

type unsupported struct{ msg string }

func (u unsupported) Error() string { return "unsupported: " + u.msg }

func unsup(format string, args ...interface{}) {
	panic(unsupported{fmt.Sprintf(format, args...)})
}

func under(t types.Type) types.Type {
	for {
		switch tt := t.(type) {
		case *types.Named:
			t = tt.Underlying()
		case *types.Alias:
			t = types.Unalias(tt)
		default:
			return t
		}
	}
}

// typeName returns a canonical short name for a type (used in heap names).
func typeName(t types.Type) string {
	t = types.Unalias(t)
	s := types.TypeString(t, func(p *types.Package) string {
		path := p.Path()
		path = strings.TrimPrefix(path, "github.com/SAP/go-dblib/")
		if path == "github.com/SAP/go-dblib" {
			path = "dblib"
		}
		return path
	})
	return s
}

var shapeCache = map[types.Type][]Leaf{}

// shape returns the leaves of a value of type t.
func shape(t types.Type) []Leaf {
	if ls, ok := shapeCache[t]; ok {
		return ls
	}
	ls := shape1(t, "")
	shapeCache[t] = ls
	return ls
}

func shape1(t types.Type, prefix string) []Leaf {
	switch u := under(t).(type) {
	case *types.Basic:
		switch {
		case u.Info()&types.IsBoolean != 0:
			return []Leaf{{prefix, SBool, t, "bool"}}
		case u.Info()&types.IsInteger != 0:
			return []Leaf{{prefix, SInt, t, "int"}}
		case u.Info()&types.IsFloat != 0:
			return []Leaf{{prefix, SInt, t, "float"}}
		case u.Info()&types.IsString != 0:
			return []Leaf{{prefix, SInt, t, "str"}}
		case u.Kind() == types.UnsafePointer:
			return []Leaf{{prefix, SInt, t, "ref"}}
		case u.Kind() == types.UntypedNil:
			return []Leaf{{prefix, SInt, t, "ref"}}
		case u.Kind() == types.Invalid:
			// the type go/ssa gives to components that are never used (blank range keys):
			// such a value carries no data
			return nil
		case u.Info()&types.IsComplex != 0:
			return []Leaf{{prefix + ".re", SInt, t, "float"}, {prefix + ".im", SInt, t, "float"}}
		}
		unsup("basic type %s", t)
	case *types.Pointer, *types.Map, *types.Chan:
		return []Leaf{{prefix, SInt, t, "ref"}}
	case *types.Signature:
		return []Leaf{{prefix, SInt, t, "fn"}}
	case *types.Slice:
		return []Leaf{{prefix + ".arr", SInt, t, "arr"}, {prefix + ".off", SInt, t, "off"}, {prefix + ".len", SInt, t, "len"}, {prefix + ".cap", SInt, t, "cap"}}
	case *types.Interface:
		return []Leaf{{prefix + ".tag", SInt, t, "tag"}, {prefix + ".pl", SInt, t, "pl"}}
	case *types.Struct:
		var ls []Leaf
		for i := 0; i < u.NumFields(); i++ {
			f := u.Field(i)
			ls = append(ls, shape1(f.Type(), prefix+"."+f.Name())...)
		}
		return ls
	case *types.Tuple:
		var ls []Leaf
		for i := 0; i < u.Len(); i++ {
			ls = append(ls, shape1(u.At(i).Type(), fmt.Sprintf("%s#%d", prefix, i))...)
		}
		return ls
	case *types.Array:
		// array value: a reference to an (immutable snapshot) backing array
		return []Leaf{{prefix, SInt, t, "arrval"}}
	case *types.TypeParam:
		unsup("type parameter")
	}
	unsup("type %s", t)
	return nil
}

func nLeaves(t types.Type) int { return len(shape(t)) }

// fieldRange returns the leaf index range of field i in struct type t.
func fieldRange(t types.Type, i int) (int, int) {
	st := under(t).(*types.Struct)
	off := 0
	for j := 0; j < i; j++ {
		off += nLeaves(st.Field(j).Type())
	}
	return off, off + nLeaves(st.Field(i).Type())
}

func tupleRange(t *types.Tuple, i int) (int, int) {
	off := 0
	for j := 0; j < i; j++ {
		off += nLeaves(t.At(j).Type())
	}
	return off, off + nLeaves(t.At(i).Type())
}

// ---------------------------------------------------------------------------

// Loc is a static description of a memory location family plus index terms.
//
//	Fam "H": object heaps, one array per (root struct type, field path, leaf), index [ref]
//	Fam "E": struct elements of slices/arrays, 2-d arrays, index [arr, idx]
//	Fam "A": scalar elements of slices/arrays keyed by element type, index [arr, idx]
//	Fam "C": cells (address-taken non-struct locals, new(T)), keyed by type, index [ref]
//	Fam "G": package-level variables, no index
type Loc struct {
	Fam  string
	Root string // struct type name (H,E), element/cell type name (A,C), global name (G)
	Path string // field path inside Root ("" or ".Header" ...)
	Idx  []Term
	RootT types.Type // Go type of the root (struct type for H/E, variable type for G)
}

func (l Loc) sameStatic(o Loc) bool { return l.Fam == o.Fam && l.Root == o.Root && l.Path == o.Path }

// Val is a symbolic Go value.
type Val struct {
	T types.Type
	L []Term
	// For pointer-typed values: static location info. L holds Loc.Idx.
	P *Loc
	// For pointers to arrays (*[N]T): Arr is set and L = [arr]
}

func (v Val) one() Term {
	if len(v.L) != 1 {
		panic(fmt.Sprintf("value of type %s has %d leaves, want 1", v.T, len(v.L)))
	}
	return v.L[0]
}

func isPointer(t types.Type) bool { _, ok := under(t).(*types.Pointer); return ok }
func isStruct(t types.Type) bool  { _, ok := under(t).(*types.Struct); return ok }
func isSlice(t types.Type) bool   { _, ok := under(t).(*types.Slice); return ok }
func isIface(t types.Type) bool   { _, ok := under(t).(*types.Interface); return ok }
func isArray(t types.Type) bool   { _, ok := under(t).(*types.Array); return ok }
func isString(t types.Type) bool {
	b, ok := under(t).(*types.Basic)
	return ok && b.Info()&types.IsString != 0
}
func isFloat(t types.Type) bool {
	b, ok := under(t).(*types.Basic)
	return ok && b.Info()&types.IsFloat != 0
}
func isBoolT(t types.Type) bool {
	b, ok := under(t).(*types.Basic)
	return ok && b.Info()&types.IsBoolean != 0
}

// intRange returns (signed, bits) for integer types.
func intRange(t types.Type) (bool, int, bool) {
	b, ok := under(t).(*types.Basic)
	if !ok || b.Info()&types.IsInteger == 0 {
		return false, 0, false
	}
	switch b.Kind() {
	case types.Int8:
		return true, 8, true
	case types.Int16:
		return true, 16, true
	case types.Int32:
		return true, 32, true
	case types.Int64, types.Int, types.UntypedInt, types.UntypedRune:
		return true, 64, true
	case types.Uint8:
		return false, 8, true
	case types.Uint16:
		return false, 16, true
	case types.Uint32:
		return false, 32, true
	case types.Uint64, types.Uint, types.Uintptr:
		return false, 64, true
	}
	return false, 0, false
}

func minMax(signed bool, bits int) (Term, Term) {
	if signed {
		p := pow2(bits - 1)
		return Term{"(- " + p.S + ")", SInt}, Sub(p, Int(1))
	}
	return Int(0), Sub(pow2(bits), Int(1))
}

// inRange returns the typing predicate for an integer term of type t.
func inRange(x Term, t types.Type) Term {
	signed, bits, ok := intRange(t)
	if !ok {
		return True
	}
	lo, hi := minMax(signed, bits)
	return And(Le(lo, x), Le(x, hi))
}

// wrap reduces a mathematical integer to the machine range of t. If single is
// true the value is known to be at most one period away (add/sub of in-range
// operands), which allows an ite instead of mod.
func wrap(x Term, t types.Type, single bool) Term {
	signed, bits, ok := intRange(t)
	if !ok {
		return x
	}
	m := pow2(bits)
	lo, hi := minMax(signed, bits)
	if single {
		return Ite(Gt(x, hi), Sub(x, m), Ite(Lt(x, lo), Add(x, m), x))
	}
	if signed {
		h := pow2(bits - 1)
		return Sub(Mod(Add(x, h), m), h)
	}
	return Mod(x, m)
}

// defaultLoc gives the static location info for a pointer of type t whose
// provenance is unknown (parameter, loaded from memory).
func defaultLoc(t types.Type, idx Term) *Loc {
	pt := under(t).(*types.Pointer)
	el := pt.Elem()
	switch under(el).(type) {
	case *types.Struct:
		return &Loc{Fam: "H", Root: typeName(el), Idx: []Term{idx}, RootT: el}
	case *types.Array:
		a := under(el).(*types.Array)
		if isStruct(a.Elem()) {
			return &Loc{Fam: "EA", Root: typeName(a.Elem()), Idx: []Term{idx}, RootT: a.Elem()}
		}
		return &Loc{Fam: "AA", Root: typeName(a.Elem()), Idx: []Term{idx}}
	}
	return &Loc{Fam: "C", Root: typeName(el), Idx: []Term{idx}}
}

func isDefaultLoc(t types.Type, l *Loc) bool {
	if l == nil {
		return true
	}
	d := defaultLoc(t, Int(0))
	return d.sameStatic(*l)
}
