package main

// Calls: builtins, contracts, inlining, defers.

import (
	"fmt"
	"go/types"
	"sort"
	"strings"

	"golang.org/x/tools/go/ssa"
)

const maxInlineDepth = 8

func (fr *Frame) doCall(x *ssa.Call, cc *ssa.CallCommon, st *State, deferred bool) *State {
	ex := fr.ex
	args := make([]Val, len(cc.Args))
	for i, a := range cc.Args {
		args[i] = ex.val(fr, a, st)
	}
	var recv Val
	if cc.IsInvoke() {
		recv = ex.val(fr, cc.Value, st)
	} else {
		switch cc.Value.(type) {
		case *ssa.Function, *ssa.Builtin:
		default:
			recv = ex.val(fr, cc.Value, st)
		}
	}
	return fr.applyCall(x, cc, recv, args, st, x)
}

// applyCall performs the call; if dst != nil the result is bound to it.
func (fr *Frame) applyCall(instr ssa.Instruction, cc *ssa.CallCommon, recv Val, args []Val, st *State, dst *ssa.Call) *State {
	ex := fr.ex
	bind := func(vals []Val, rt types.Type) {
		if dst == nil {
			return
		}
		switch len(vals) {
		case 0:
			fr.vals[dst] = Val{T: rt}
		case 1:
			v := vals[0]
			v.T = rt
			fr.vals[dst] = v
		default:
			t := Val{T: rt}
			for _, v := range vals {
				if v.P != nil && isPointer(v.T) && !isDefaultLoc(v.T, v.P) {
					unsup("interior pointer in tuple result")
				}
				t.L = append(t.L, v.L...)
			}
			fr.vals[dst] = t
		}
	}
	var rt types.Type
	if dst != nil {
		rt = dst.Type()
	}
	pos := instr.Pos()

	// builtins
	if b, ok := cc.Value.(*ssa.Builtin); ok {
		st2, vals := fr.builtin(b, cc, args, st, instr)
		bind(vals, rt)
		return st2
	}

	// invoke
	if cc.IsInvoke() {
		itn0 := typeName(cc.Value.Type())
		if itn0 == "error" || itn0 == "fmt.Stringer" || itn0 == "encoding/binary.ByteOrder" {
			fr.oblige(st, "nil", exprLabel(fr, cc.Value)+"."+cc.Method.Name(), Ne(recv.L[0], Int(0)), pos)
		} else {
			// a typed nil pointer inside the interface would make pointer-receiver methods fault
			fr.oblige(st, "nil", exprLabel(fr, cc.Value)+"."+cc.Method.Name(), And(Ne(recv.L[0], Int(0)), Ne(recv.L[1], Int(0))), pos)
		}
		key := "iface:" + typeName(cc.Value.Type()) + "." + cc.Method.Name()
		if c, ok := ex.P.db.Funcs[key]; ok {
			sig := cc.Method.Type().(*types.Signature)
			fr.checkImplRequires(cc, recv, args, st)
			st2, vals := fr.applyContract(c, key, sig, &recv, args, st, pos)
			bind(vals, rt)
			return st2
		}
		if st2, vals, ok := fr.nativeInvoke(cc, recv, args, st, instr); ok {
			bind(vals, rt)
			return st2
		}
		// closed-world fallback: havoc what any implementation may write
		impls := ex.P.implementations(cc.Value.Type(), cc.Method)
		keys := map[string]bool{}
		for _, f := range impls {
			for k := range ex.P.modset(f) {
				keys[k] = true
			}
		}
		sig := cc.Method.Type().(*types.Signature)
		st2, vals := fr.havocCall("invoke "+typeName(cc.Value.Type())+"."+cc.Method.Name(), keys, sig, st)
		// pure interface methods are functions of the receiver: model getters deterministically
		if len(keys) == 0 && sig.Results().Len() > 0 && len(args) == 0 {
			vals = fr.pureInvokeResult(cc, recv, sig, st)
			st2 = st
		}
		ex.unspec["invoke "+typeName(cc.Value.Type())+"."+cc.Method.Name()+fmt.Sprintf(" (closed world over %d implementations)", len(impls))] = true
		bind(vals, rt)
		return st2
	}

	// static callee / closure / function value
	var callee *ssa.Function
	var free []Val
	switch v := cc.Value.(type) {
	case *ssa.Function:
		callee = v
	case *ssa.MakeClosure:
		callee = v.Fn.(*ssa.Function)
		for _, b := range v.Bindings {
			free = append(free, ex.val(fr, b, st))
		}
	}
	if callee == nil {
		// unknown function value
		sig := under(cc.Value.Type()).(*types.Signature)
		if c := fr.funcValueContract(cc.Value); c != nil {
			fr.oblige(st, "nil", exprLabel(fr, cc.Value)+"()", Ne(recv.L[0], Int(0)), pos)
			// a function loaded from a struct field: the struct is visible to the contract as "owner"
			fr.ownerVal = nil
			if u, ok := cc.Value.(*ssa.UnOp); ok {
				if fa, ok := u.X.(*ssa.FieldAddr); ok {
					ov := ex.val(fr, fa.X, st)
					fr.ownerVal = &ov
				}
			}
			fr.selfVal = &recv
			st2, vals := fr.applyContract(c, c.Func, sig, nil, args, st, pos)
			fr.ownerVal = nil
			fr.selfVal = nil
			bind(vals, rt)
			return st2
		}
		fr.oblige(st, "nil", exprLabel(fr, cc.Value)+"()", Ne(recv.L[0], Int(0)), pos)
		if typeName(cc.Value.Type()) == "context.CancelFunc" {
			// cancel functions only affect their context (not modelled beyond $done)
			ex.trusted["extern context.CancelFunc values have no effect on program state"] = true
			bind(nil, rt)
			return st
		}
		st2, vals := fr.havocCall("func value "+exprLabel(fr, cc.Value), map[string]bool{"*": true}, sig, st)
		ex.unspec["call through function value "+exprLabel(fr, cc.Value)+" in "+funcKey(fr.fn)] = true
		bind(vals, rt)
		return st2
	}
	key := funcKey(callee)
	fr.checkParamInv(callee, args, st)
	if callee.Signature.Recv() != nil && isPointer(callee.Signature.Recv().Type()) && len(args) > 0 && len(args[0].L) > 0 && callee.Synthetic == "" {
		fr.oblige(st, "nil", "recv "+exprLabel(fr, cc.Args[0])+"."+callee.Name(), Ne(args[0].L[0], Int(0)), pos)
	}
	// wrappers ($bound, $thunk, promoted methods) are always inlined
	if callee.Synthetic != "" && callee.Blocks != nil {
		_, st2, vals := ex.runFunc(callee, args, free, st, true, fr.depth+1)
		if st2 == nil {
			return nil
		}
		bind(vals, rt)
		return st2
	}
	if h, ok := externHandlers[key]; ok {
		st2, vals := h(fr, cc, args, st, instr)
		ex.trusted["extern "+key] = true
		bind(vals, rt)
		return st2
	}
	if c := ex.P.callContract(callee); c != nil && !(c.Props["inline"]) {
		st2, vals := fr.applyContract(c, key, callee.Signature, nil, args, st, pos)
		bind(vals, rt)
		return st2
	}
	if callee.Blocks != nil && ex.P.inRepo[callee] && fr.canInline(callee) {
		ex.inlined[key] = true
		// inlined callees: preconditions labelled call-... are obligations of the call site
		if c := ex.P.callContract(callee); c != nil && c.Props["inline"] {
			var cs []Clause
			for _, r := range c.Requires {
				if strings.HasPrefix(r.Label, "call-") {
					cs = append(cs, r)
				}
			}
			if len(cs) > 0 {
				env := ex.newEnv(st, st, fr)
				env.pkg = contractPkg(c.Func)
				names := contractParamNames(c, callee.Signature, false)
				for i, n := range names {
					if i < len(args) {
						env.vars[n] = args[i]
					}
				}
				if c.ThisAlias && callee.Signature.Recv() != nil && len(args) > 0 {
					env.vars["this"] = args[0]
				}
				fr.callOrd[key+"/inline"]++
				for _, r := range cs {
					fr.obligeClause(st, "pre", fmt.Sprintf("%s#%d/%s", shortKey(key), fr.callOrd[key+"/inline"], r.Label), env, r, nil)
				}
			}
		}
		_, st2, vals := ex.runFunc(callee, args, free, st, true, fr.depth+1)
		if st2 == nil {
			return nil
		}
		bind(vals, rt)
		return st2
	}
	// no contract, not inlinable: havoc by inferred modset
	keys := ex.P.modset(callee)
	if !ex.P.inRepo[callee] {
		ex.unspec["external "+key] = true
	} else {
		ex.unspec["in-repo without contract (havoc by inferred mod-set) "+key] = true
	}
	st2, vals := fr.havocCall(key, keys, callee.Signature, st)
	bind(vals, rt)
	return st2
}

// funcValueContract: a call through a function value loaded from a struct
// field may have an (assumed) contract attached to that field.
func (fr *Frame) funcValueContract(v ssa.Value) *Contract {
	// values of a named function type may carry a contract for the whole type
	if c, ok := fr.ex.P.db.Funcs["functype:"+typeName(v.Type())]; ok {
		return c
	}
	if pv, ok := v.(*ssa.Parameter); ok && pv.Parent() != nil {
		// a function-typed parameter may carry a contract: paramfunc:<function key>.<param>
		if c, ok := fr.ex.P.db.Funcs["paramfunc:"+funcKey(pv.Parent())+"."+pv.Name()]; ok {
			return c
		}
	}
	u, ok := v.(*ssa.UnOp)
	if !ok {
		return nil
	}
	fa, ok := u.X.(*ssa.FieldAddr)
	if !ok {
		return nil
	}
	pt, ok := under(fa.X.Type()).(*types.Pointer)
	if !ok {
		return nil
	}
	st, ok := under(pt.Elem()).(*types.Struct)
	if !ok {
		return nil
	}
	key := "fieldfunc:" + typeName(pt.Elem()) + "." + st.Field(fa.Field).Name()
	return fr.ex.P.db.Funcs[key]
}

func (fr *Frame) canInline(callee *ssa.Function) bool {
	if fr.depth >= maxInlineDepth {
		return false
	}
	for _, f := range fr.ex.stack {
		if f == callee {
			return false
		}
	}
	// Loops inside inlined callees are cut like any other loop; only invariants
	// already proved in the callee's own verification are assumed there.
	n := 0
	for _, b := range callee.Blocks {
		n += len(b.Instrs)
	}
	return n <= 1500
}

// havocCall models a call about which only its mod-set is known.
func (fr *Frame) havocCall(desc string, keys map[string]bool, sig *types.Signature, st *State) (*State, []Val) {
	ex := fr.ex
	st2 := st
	if len(keys) > 0 {
		ev := &Event{keys: keys, all: keys["*"], label: desc}
		st2 = st.havoc(ev)
		na := ex.vc.fresh("alloc", SInt)
		ex.vc.assert(Ge(na, st.alloc))
		st2.alloc = na
	} else {
		st2 = st.clone()
		na := ex.vc.fresh("alloc", SInt)
		ex.vc.assert(Ge(na, st.alloc))
		st2.alloc = na
	}
	var vals []Val
	for i := 0; i < sig.Results().Len(); i++ {
		vals = append(vals, ex.freshVal(st2, "res", sig.Results().At(i).Type()))
	}
	return st2, vals
}

// pureInvokeResult: result of a side-effect free interface method with no
// arguments, as an uninterpreted function of (method, tag, payload, epoch).
func (fr *Frame) pureInvokeResult(cc *ssa.CallCommon, recv Val, sig *types.Signature, st *State) []Val {
	ex := fr.ex
	var vals []Val
	for i := 0; i < sig.Results().Len(); i++ {
		vals = append(vals, ex.freshVal(st, "get_"+cc.Method.Name(), sig.Results().At(i).Type()))
	}
	return vals
}

// ---------------------------------------------------------------------------
// builtins

func (fr *Frame) builtin(b *ssa.Builtin, cc *ssa.CallCommon, args []Val, st *State, instr ssa.Instruction) (*State, []Val) {
	ex := fr.ex
	switch b.Name() {
	case "len":
		t := cc.Args[0].Type()
		switch under(t).(type) {
		case *types.Slice:
			return st, []Val{{T: types.Typ[types.Int], L: []Term{args[0].L[2]}}}
		case *types.Basic:
			return st, []Val{{T: types.Typ[types.Int], L: []Term{slen(args[0].one())}}}
		case *types.Map:
			c := Select(st.get(ex.mapCount(typeName(t))), args[0].one())
			ex.fact(Ge(c, Int(0)))
			return st, []Val{{T: types.Typ[types.Int], L: []Term{Ite(Eq(args[0].one(), Int(0)), Int(0), c)}}}
		case *types.Chan:
			r := ex.vc.fresh("chanlen", SInt)
			ex.vc.assert(Ge(r, Int(0)))
			return st, []Val{{T: types.Typ[types.Int], L: []Term{r}}}
		case *types.Pointer:
			at := under(under(t).(*types.Pointer).Elem()).(*types.Array)
			return st, []Val{{T: types.Typ[types.Int], L: []Term{Int(at.Len())}}}
		}
	case "cap":
		if isSlice(cc.Args[0].Type()) {
			return st, []Val{{T: types.Typ[types.Int], L: []Term{args[0].L[3]}}}
		}
	case "append":
		return fr.doAppend(cc, args, st, instr)
	case "copy":
		return fr.doCopy(cc, args, st)
	case "delete":
		mtn := typeName(cc.Args[0].Type())
		m := args[0].one()
		k := fr.mapKey(args[1])
		hh := ex.mapHeap(mtn, "has", SBool)
		old := st.get(hh)
		st.set(hh, ex.vc.define(hh.Name, Ite(Eq(m, Int(0)), old, Store(old, m, Store(Select(old, m), k, False)))))
		cnt := ex.mapCount(mtn)
		oc := st.get(cnt)
		nc := ex.vc.fresh("mapcount", SInt)
		ex.vc.assert(And(Le(nc, Select(oc, m)), Ge(nc, Sub(Select(oc, m), Int(1))), Ge(nc, Int(0))))
		st.set(cnt, ex.vc.define(cnt.Name, Store(oc, m, nc)))
		return st, nil
	case "close":
		c := args[0].one()
		h := ex.chanHeap("closed", SBool)
		fr.oblige(st, "chanclose", exprLabel(fr, cc.Args[0]), And(Ne(c, Int(0)), Not(Select(st.get(h), c))), instr.Pos())
		st.set(h, ex.vc.define(h.Name, Store(st.get(h), c, True)))
		return st, nil
	case "print", "println":
		return st, nil
	case "ssa:wrapnilchk":
		fr.oblige(st, "nil", "wrapnilchk "+exprLabel(fr, cc.Args[0]), Ne(args[0].L[0], Int(0)), instr.Pos())
		return st, []Val{args[0]}
	case "min", "max":
		if len(args) == 2 && len(args[0].L) == 1 && args[0].L[0].Sort == SInt && !isFloat(args[0].T) {
			a, bb := args[0].one(), args[1].one()
			if b.Name() == "min" {
				return st, []Val{{T: args[0].T, L: []Term{Ite(Le(a, bb), a, bb)}}}
			}
			return st, []Val{{T: args[0].T, L: []Term{Ite(Ge(a, bb), a, bb)}}}
		}
	}
	unsup("builtin %s on %s", b.Name(), cc.Args[0].Type())
	return nil, nil
}

func (fr *Frame) doAppend(cc *ssa.CallCommon, args []Val, st *State, instr ssa.Instruction) (*State, []Val) {
	ex := fr.ex
	st0 := args[0]
	t := cc.Args[0].Type()
	et := under(t).(*types.Slice).Elem()
	arr, off, ln, cp := st0.L[0], st0.L[1], st0.L[2], st0.L[3]
	// second arg: slice or string
	var sarr, soff, sln Term
	var fromString bool
	if isString(cc.Args[1].Type()) {
		fromString = true
		sln = slen(args[1].one())
	} else {
		sarr, soff, sln = args[1].L[0], args[1].L[1], args[1].L[2]
	}
	newLen := ex.vc.define("applen", Add(ln, sln))
	// Two outcomes: in place (newLen <= cap) or reallocation.
	inPlace := ex.vc.define("inplace", And(Le(newLen, cp), Ne(arr, Int(0))))
	fresh := ex.allocRef(st, "apparr")
	rarr := ex.vc.define("apparr", Ite(inPlace, arr, fresh))
	roff := ex.vc.define("appoff", Ite(inPlace, off, Int(0)))
	ncap := ex.vc.fresh("appcap", SInt)
	ex.vc.assert(And(Ge(ncap, newLen), Le(ncap, Int(maxElems(t)))))
	rcap := ex.vc.define("appcap", Ite(inPlace, cp, ncap))
	fam := "A"
	if isStruct(et) {
		fam = "E"
	}
	k := Term{"ai", SInt}
	constN, isConst := int64(-1), false
	if !fromString {
		if v, ok := smtIntValue(sln.S); ok && v >= 0 && v <= 8 {
			constN, isConst = v, true
		}
	}
	for _, hh := range ex.leafHeaps(fam, typeName(et), "", et, "") {
		old := st.get(hh)
		oldRow := Select(old, arr)
		if isConst {
			// appending a fixed number of elements: the in-place row is the old row with
			// the new elements stored; the reallocated row copies the prefix.
			srcRow := Select(old, sarr)
			rowIn := oldRow
			for e := int64(0); e < constN; e++ {
				rowIn = Store(rowIn, Add(off, Add(ln, Int(e))), Select(srcRow, Add(soff, Int(e))))
			}
			nr := ex.vc.fresh("approw", arrOf(hh.Leaf.Sort))
			ex.vc.assert(Forall([]string{"ai"}, Implies(And(Le(Int(0), k), Lt(k, ln)), Eq(Select(nr, k), Select(oldRow, Add(off, k)))), Select(nr, k)))
			for e := int64(0); e < constN; e++ {
				ex.vc.assert(Eq(Select(nr, Add(ln, Int(e))), Select(srcRow, Add(soff, Int(e)))))
			}
			st.set(hh, ex.vc.define(hh.Name, Ite(inPlace, Store(old, arr, rowIn), Store(old, fresh, nr))))
			continue
		}
		na := ex.vc.fresh("approw", arrOf(hh.Leaf.Sort))
		// existing elements
		ex.vc.assert(Forall([]string{"ai"}, Implies(And(Le(Int(0), k), Lt(k, ln)), Eq(Select(na, Add(roff, k)), Select(oldRow, Add(off, k)))), Select(na, Add(roff, k))))
		// in place: everything outside the appended window is unchanged
		ex.vc.assert(Implies(inPlace, Forall([]string{"ai"}, Implies(Or(Lt(k, Add(off, ln)), Ge(k, Add(off, newLen))), Eq(Select(na, k), Select(oldRow, k))), Select(na, k))))
		// appended elements
		if fromString {
			ex.vc.assert(Forall([]string{"ai"}, Implies(And(Le(Int(0), k), Lt(k, sln)), Eq(Select(na, Add(roff, Add(ln, k))), sat(args[1].one(), k))), Select(na, Add(roff, Add(ln, k)))))
		} else {
			srcRow := Select(old, sarr)
			ex.vc.assert(Forall([]string{"ai"}, Implies(And(Le(Int(0), k), Lt(k, sln)), Eq(Select(na, Add(roff, Add(ln, k))), Select(srcRow, Add(soff, k)))), Select(na, Add(roff, Add(ln, k)))))
		}
		st.set(hh, ex.vc.define(hh.Name, Store(old, rarr, na)))
	}
	fr.allocObligation(st, instr, sln)
	// appending nothing to nil yields nil
	resArr := ex.vc.define("appres", Ite(And(Eq(arr, Int(0)), Eq(sln, Int(0))), Int(0), rarr))
	resCap := ex.vc.define("apprescap", Ite(And(Eq(arr, Int(0)), Eq(sln, Int(0))), Int(0), rcap))
	return st, []Val{{T: t, L: []Term{resArr, roff, newLen, resCap}}}
}

func (fr *Frame) doCopy(cc *ssa.CallCommon, args []Val, st *State) (*State, []Val) {
	ex := fr.ex
	d := args[0]
	t := cc.Args[0].Type()
	et := under(t).(*types.Slice).Elem()
	darr, doff, dln := d.L[0], d.L[1], d.L[2]
	var sln Term
	fromString := isString(cc.Args[1].Type())
	if fromString {
		sln = slen(args[1].one())
	} else {
		sln = args[1].L[2]
	}
	n := ex.vc.define("copyn", Ite(Le(dln, sln), dln, sln))
	fam := "A"
	if isStruct(et) {
		fam = "E"
	}
	k := Term{"ci", SInt}
	for _, hh := range ex.leafHeaps(fam, typeName(et), "", et, "") {
		old := st.get(hh)
		oldRow := Select(old, darr)
		na := ex.vc.fresh("copyrow", arrOf(hh.Leaf.Sort))
		// written window, indexed directly so that any read of the new row triggers it
		if fromString {
			ex.vc.assert(Forall([]string{"ci"}, Implies(And(Le(doff, k), Lt(k, Add(doff, n))), Eq(Select(na, k), sat(args[1].one(), Sub(k, doff)))), Select(na, k)))
		} else {
			srcRow := Select(old, args[1].L[0])
			ex.vc.assert(Forall([]string{"ci"}, Implies(And(Le(doff, k), Lt(k, Add(doff, n))), Eq(Select(na, k), Select(srcRow, Add(args[1].L[1], Sub(k, doff))))), Select(na, k)))
		}
		ex.vc.assert(Forall([]string{"ci"}, Implies(Or(Lt(k, doff), Ge(k, Add(doff, n))), Eq(Select(na, k), Select(oldRow, k))), Select(na, k)))
		// n == 0: nothing changes (also covers nil destination)
		st.set(hh, ex.vc.define(hh.Name, Ite(Eq(n, Int(0)), old, Store(old, darr, na))))
	}
	return st, []Val{{T: types.Typ[types.Int], L: []Term{n}}}
}

// ---------------------------------------------------------------------------
// defers

func (fr *Frame) runDefers(st *State) *State {
	ds := st.defers
	cur := st
	cur.defers = nil
	for i := len(ds) - 1; i >= 0; i-- {
		d := ds[i]
		// the deferred call runs iff its Defer instruction was reached
		cond := d.cond
		if cur.reach.S == cond.S {
			n := d.run(cur)
			if n == nil {
				return nil
			}
			cur = n
			continue
		}
		yes := cur.clone()
		yes.reach = fr.ex.vc.define("dreach", And(cur.reach, cond))
		no := cur.clone()
		no.reach = fr.ex.vc.define("dreach", And(cur.reach, Not(cond)))
		// fast path: if cond is implied syntactically (same block dominance), we can't know; merge
		y2 := d.run(yes)
		if y2 == nil {
			cur = no
			continue
		}
		cur = mergeStates(fr.ex, []*State{y2, no}, []Term{y2.reach, no.reach})
		cur.defers = nil
	}
	return cur
}

// ---------------------------------------------------------------------------
// contracts at call sites

func (fr *Frame) applyContract(c *Contract, key string, sig *types.Signature, recv *Val, args []Val, st *State, pos interface{ IsValid() bool }) (*State, []Val) {
	ex := fr.ex
	if c.Trusted {
		ex.trusted["assumed contract "+key] = true
	}
	env := ex.newEnv(st, st, fr)
	env.pkg = contractPkg(key)
	names := contractParamNames(c, sig, recv != nil)
	all := args
	if recv != nil {
		all = append([]Val{*recv}, args...)
	}
	if len(names) != len(all) {
		panic(fmt.Sprintf("contract %s: %d param names for %d args (%v)", key, len(names), len(all), names))
	}
	for i, n := range names {
		env.vars[n] = all[i]
		if i > 0 || recv == nil {
			fr.checkEscapeContract(all[i], key)
		}
	}
	if c.ThisAlias && sig.Recv() != nil && len(all) > 0 {
		env.vars["this"] = all[0]
	}
	if fr.ownerVal != nil {
		env.vars["owner"] = *fr.ownerVal
	}
	if fr.selfVal != nil {
		// the function value being called (contracts of function-typed parameters / fields)
		env.vars["self"] = *fr.selfVal
	}
	fr.callOrd[key]++
	ord := fr.callOrd[key]
	// ghost updates anchored before this call (top-level frame only)
	if !fr.inline && fr.contract != nil {
		st = fr.applyGhost(fmt.Sprintf("before %s#%d", shortKey(key), ord), st)
		env.st, env.old = st, st
	}
	for i, r := range c.Requires {
		lbl := r.Label
		if lbl == "" {
			lbl = fmt.Sprintf("%d", i)
		}
		t := env.evalBool(r.E)
		if fr.fn.Synthetic != "" && strings.HasPrefix(lbl, "impl:") {
			// promotion wrappers: implementation-specific preconditions are checked at
			// the dynamic call sites (checkImplRequires), so they hold here
			ex.vc.assert(Implies(st.reach, t))
			continue
		}
		fr.obligePos(st, "pre", fmt.Sprintf("%s#%d/%s", shortKey(key), ord, lbl), t, ex.curPos(fr))
	}
	// post state
	keys := map[string]bool{}
	freshOnly := map[string]bool{}
	if fn, ok := ex.P.funcs[key]; ok && !c.Trusted {
		for k := range ex.P.modset(fn) {
			keys[k] = true
		}
		for k := range ex.P.freshKeys(fn) {
			if !keys[k] {
				freshOnly[k] = true
			}
		}
	}
	ex.P.contractKeys(c, keys)
	targets := map[string][][]Term{} // heap name -> index tuples that may change
	ranges := map[string][][3]Term{} // heap name -> (row, off, len) of elems() targets
	whole := map[string]bool{}
	var starRefs []Term
	var starTypes []types.Type
	var starLocs []*Loc
	for _, m := range c.Modifies {
		if m.Whole {
			whole[m.Key] = true
			keys[m.Key] = true
			continue
		}
		if m.Star {
			sv := env.eval(m.E)
			starRefs = append(starRefs, refOf(sv))
			starTypes = append(starTypes, sv.T)
			starLocs = append(starLocs, sv.P)
			keys["*"] = true
			continue
		}
		for _, tl := range env.evalLocs(m.E) {
			for _, h := range tl.heaps {
				targets[h.Name] = append(targets[h.Name], tl.idx)
				keys[h.Key] = true
				if tl.rng != nil {
					ranges[h.Name] = append(ranges[h.Name], [3]Term{tl.idx[0], tl.rng[0], tl.rng[1]})
				}
			}
		}
	}
	preAlloc := st.alloc
	keysDeclared := map[string]bool{}
	for k := range keys {
		if k != "*" {
			keysDeclared[k] = true
		}
	}
	ev := &Event{keys: keys, all: keys["*"], label: key}
	if c.HasMod {
		ev.frame = func(h *HeapInfo, old, nw Term) {
			if whole[h.Key] || h.Dim == 0 && len(targets[h.Name]) > 0 {
				return
			}
			if len(starRefs) > 0 && strings.HasPrefix(h.Name, "H$") && h.Dim == 1 && len(targets[h.Name]) == 0 {
				r := Term{"fr", SInt}
				var excl []Term
				for si, sr := range starRefs {
					if ex.P.starAffectsLoc(h, starTypes[si], starLocs[si]) {
						excl = append(excl, Ne(r, sr))
					}
				}
				ex.vc.assert(Forall([]string{"fr"}, Implies(And(excl...), Eq(Select(nw, r), Select(old, r))), Select(nw, r)))
				return
			}
			if len(starRefs) > 0 && !keysDeclared[h.Key] && len(targets[h.Name]) == 0 {
				// not an object field and not otherwise declared: unchanged
				ex.vc.assert(Eq(nw, old))
				return
			}
			if h.Dim == 0 {
				ex.vc.assert(Eq(nw, old))
				return
			}
			r := Term{"fr", SInt}
			var excl []Term
			for _, idx := range targets[h.Name] {
				excl = append(excl, Ne(r, idx[0]))
			}
			tg := targets[h.Name]
			if h.Dim == 2 && len(tg) > 0 {
				// row-level frame plus element-level frame for single-element targets
				allWholeRow := true
				for _, idx := range tg {
					if len(idx) == 2 {
						allWholeRow = false
					}
				}
				if !allWholeRow {
					// elements: rows other than targeted rows unchanged; within targeted rows, other indices unchanged
					ex.vc.assert(Forall([]string{"fr"}, Implies(And(append([]Term{Le(r, preAlloc)}, excl...)...), Eq(Select(nw, r), Select(old, r))), Select(nw, r)))
					byRow := map[string][]Term{}
					rowT := map[string]Term{}
					for _, idx := range tg {
						if len(idx) == 2 {
							byRow[idx[0].S] = append(byRow[idx[0].S], idx[1])
							rowT[idx[0].S] = idx[0]
						} else {
							byRow[idx[0].S] = nil
							rowT[idx[0].S] = idx[0]
						}
					}
					var rows []string
					for k := range byRow {
						rows = append(rows, k)
					}
					sort.Strings(rows)
					for _, rk := range rows {
						els := byRow[rk]
						if els == nil {
							continue
						}
						j := Term{"fj", SInt}
						var ex2 []Term
						for _, e := range els {
							ex2 = append(ex2, Ne(j, e))
						}
						ex.vc.assert(Forall([]string{"fj"}, Implies(And(ex2...), Eq(Select(Select(nw, rowT[rk]), j), Select(Select(old, rowT[rk]), j))), Select(Select(nw, rowT[rk]), j)))
					}
					return
				}
			}
			ex.vc.assert(Forall([]string{"fr"}, Implies(And(append([]Term{Le(r, preAlloc)}, excl...)...), Eq(Select(nw, r), Select(old, r))), Select(nw, r)))
			// elems(s): within the row of s only the elements of s itself may change
			if h.Dim == 2 {
				byRow := map[string][][3]Term{}
				var order []string
				for _, rg := range ranges[h.Name] {
					if _, ok := byRow[rg[0].S]; !ok {
						order = append(order, rg[0].S)
					}
					byRow[rg[0].S] = append(byRow[rg[0].S], rg)
				}
				wholeRow := map[string]bool{}
				for _, idx := range tg {
					if len(idx) == 1 {
						found := false
						for _, rg := range ranges[h.Name] {
							if rg[0].S == idx[0].S {
								found = true
							}
						}
						if !found {
							wholeRow[idx[0].S] = true
						}
					}
				}
				for _, rk := range order {
					if wholeRow[rk] {
						continue
					}
					j := Term{"fj", SInt}
					var outside []Term
					for _, rg := range byRow[rk] {
						outside = append(outside, Or(Lt(j, rg[1]), Ge(j, Add(rg[1], rg[2]))))
					}
					row := byRow[rk][0][0]
					ex.vc.assert(Forall([]string{"fj"}, Implies(And(outside...), Eq(Select(Select(nw, row), j), Select(Select(old, row), j))), Select(Select(nw, row), j)))
				}
			}
		}
	}
	// heaps the callee writes only at its own allocations: unchanged on every object that
	// existed before the call, unconstrained on the fresh ones (their fields are whatever the
	// callee stored; the contract's ensures describe them)
	for k := range freshOnly {
		if keys[k] {
			delete(freshOnly, k)
		}
	}
	if len(freshOnly) > 0 && !keys["*"] {
		for k := range freshOnly {
			keys[k] = true
		}
		inner := ev.frame
		ev.frame = func(h *HeapInfo, old, nw Term) {
			if freshOnly[h.Key] && !whole[h.Key] && len(targets[h.Name]) == 0 {
				if h.Dim == 0 {
					ex.vc.assert(Eq(nw, old))
					return
				}
				r := Term{"fr", SInt}
				ex.vc.assert(Forall([]string{"fr"}, Implies(Le(r, preAlloc), Eq(Select(nw, r), Select(old, r))), Select(nw, r)))
				return
			}
			if inner != nil {
				inner(h, old, nw)
			}
		}
	}
	var st2 *State
	if len(keys) > 0 {
		st2 = st.havoc(ev)
	} else {
		st2 = st.clone()
	}
	na := ex.vc.fresh("alloc", SInt)
	ex.vc.assert(Ge(na, st.alloc))
	st2.alloc = na
	var vals []Val
	for i := 0; i < sig.Results().Len(); i++ {
		vals = append(vals, ex.freshVal(st2, "res_"+shortKey(key), sig.Results().At(i).Type()))
	}
	env2 := ex.newEnv(st2, st, fr)
	env2.pkg = env.pkg
	for k, v := range env.vars {
		env2.vars[k] = v
	}
	rn := contractResultNames(c, sig)
	for i, n := range rn {
		env2.vars[n] = vals[i]
	}
	for _, e := range c.Ensures {
		t := env2.evalBool(e.E)
		ex.vc.assert(Implies(st2.reach, t))
	}
	// the callee establishes the type invariants of the objects it returns
	if fnc, ok := ex.P.funcs[key]; ok && ex.P.inRepo[fnc] && !c.Trusted {
		for i, v := range vals {
			if isPointer(v.T) && len(v.L) > 0 {
				ex.P.assumeTypeInvAt(ex, st2, v, fnc.Signature.Results().At(i).Type(), fr)
			}
		}
	}
	// the callee re-establishes the type invariants of its pointer arguments
	if fnc, ok := ex.P.funcs[key]; ok && ex.P.inRepo[fnc] && !c.Trusted {
		for i, a := range all {
			if i < len(fnc.Params) && isPointer(fnc.Params[i].Type()) && len(a.L) > 0 {
				ex.P.assumeTypeInvAt(ex, st2, a, fnc.Params[i].Type(), fr)
			}
		}
	}
	if !fr.inline && fr.contract != nil {
		fr.ghostRes = vals
		st2 = fr.applyGhost(fmt.Sprintf("after %s#%d", shortKey(key), ord), st2)
		fr.ghostRes = nil
	}
	return st2, vals
}

func (fr *Frame) checkEscapeContract(v Val, key string) {
	// interior pointers may be passed to contract callees: the contract is
	// evaluated against the actual location. Nothing to check.
}

func (ex *Exec) curPos(fr *Frame) string { return "" }

func (fr *Frame) obligePos(st *State, kind, label string, cond Term, pos string) {
	fr.oblige(st, kind, label, cond, 0)
}

func shortKey(key string) string {
	key = strings.TrimPrefix(key, "iface:")
	return key
}

func contractPkg(key string) string {
	k := strings.TrimPrefix(key, "iface:")
	k = strings.TrimPrefix(k, "paramfunc:")
	k = strings.TrimPrefix(k, "fieldfunc:")
	k = strings.TrimPrefix(k, "functype:")
	k = strings.TrimPrefix(k, "(")
	k = strings.TrimPrefix(k, "*")
	if i := strings.Index(k, "."); i >= 0 {
		return k[:i]
	}
	return ""
}

func contractParamNames(c *Contract, sig *types.Signature, hasRecv bool) []string {
	var names []string
	if c != nil && len(c.ParamsOv) > 0 {
		if hasRecv || sig.Recv() != nil {
			names = append(names, "this")
		}
		return append(names, c.ParamsOv...)
	}
	if sig.Recv() != nil {
		n := sig.Recv().Name()
		if n == "" || n == "_" || hasRecv {
			n = "this"
		}
		names = append(names, n)
	} else if hasRecv {
		names = append(names, "this")
	}
	for i := 0; i < sig.Params().Len(); i++ {
		n := sig.Params().At(i).Name()
		if n == "" || n == "_" {
			n = fmt.Sprintf("$p%d", i)
		}
		names = append(names, n)
	}
	return names
}

func contractResultNames(c *Contract, sig *types.Signature) []string {
	var names []string
	for i := 0; i < sig.Results().Len(); i++ {
		n := sig.Results().At(i).Name()
		if c != nil && len(c.Results) == 0 && len(c.LikeResults) == sig.Results().Len() {
			n = c.LikeResults[i]
		}
		if c != nil && i < len(c.Results) {
			n = c.Results[i]
		}
		if n == "" || n == "_" {
			n = fmt.Sprintf("$ret%d", i)
		}
		names = append(names, n)
	}
	return names
}

// applyGhost applies the top-level contract's ghost updates for an anchor.
func (fr *Frame) applyGhost(anchor string, st *State) *State {
	c := fr.contract
	if c == nil {
		return st
	}
	for _, g := range c.Ghost {
		if g.At != anchor {
			continue
		}
		st = st.clone()
		env := fr.ex.newEnv(st, fr.entry, fr)
		env.pkg = contractPkg(c.Func)
		fr.bindTopVars(env)
		for i, v := range fr.ghostRes {
			env.vars[fmt.Sprintf("$res%d", i)] = v
		}
		if fr.curBlock != nil {
			blk := fr.curBlock
			stc := st
			env.locals = func(name string) (Val, bool) {
				fr.includeOwnBlock = true
				defer func() { fr.includeOwnBlock = false }()
				return fr.localByName(name, blk, stc, nil)
			}
		}
		env.assignGhost(g.LHS, g.RHS)
	}
	return st
}


// checkParamInv emits the per-type parameter invariants at a static call site.
func (fr *Frame) checkParamInv(callee *ssa.Function, args []Val, st *State) {
	ex := fr.ex
	if !ex.P.inRepo[callee] {
		return
	}
	for i, p := range callee.Params {
		if i >= len(args) {
			break
		}
		// object invariants of pointer arguments must hold when the callee is entered
		willInline := false
		if cc0 := ex.P.callContract(callee); cc0 == nil || cc0.Props["inline"] {
			willInline = callee.Blocks != nil && fr.canInline(callee)
		}
		if isPointer(p.Type()) && len(args[i].L) > 0 && callee.Synthetic == "" && !willInline {
			for _, it := range ex.P.invTargets(ex, args[i], p.Type()) {
				env := ex.newEnv(st, st, fr)
				env.pkg = it.tn[:strings.Index(it.tn, ".")]
				env.vars["this"] = it.v
				for ci, c := range it.cs {
					lbl := c.Label
					if lbl == "" {
						lbl = fmt.Sprintf("%d", ci)
					}
					fr.oblige(st, "pre", fmt.Sprintf("%s/typeinv %s %s/%s", funcKey(callee), p.Name(), it.tn, lbl), Implies(Ne(args[i].L[0], Int(0)), safeEval(env, c)), 0)
				}
			}
		}
		cls := ex.P.db.ParamInv[typeName(p.Type())]
		for _, cl := range cls {
			env := ex.newEnv(st, st, fr)
			env.pkg = contractPkgOf(typeName(p.Type()))
			env.vars["this"] = args[i]
			lbl := cl.Label
			fr.oblige(st, "pre", fmt.Sprintf("%s/param %s/%s", funcKey(callee), p.Name(), lbl), safeEval(env, cl), 0)
		}
	}
}


// checkImplRequires: preconditions that an implementation's own contract adds
// beyond the interface contract are checked at the dynamic call site, guarded
// by the dynamic type (closed world over the implementations in the program).
func (fr *Frame) checkImplRequires(cc *ssa.CallCommon, recv Val, args []Val, st *State) {
	ex := fr.ex
	for _, info := range ex.P.implInfos(cc.Value.Type(), cc.Method) {
		c := ex.P.contractFor(info.target)
		if c == nil || len(c.Requires) == 0 {
			continue
		}
		if _, isPtr := under(info.recvT).(*types.Pointer); !isPtr {
			continue // value receivers: the requires cannot mention receiver memory; skip
		}
		tagOK := Eq(recv.L[0], Int(int64(ex.P.tagOf(info.recvT))))
		rv := Val{T: info.recvT, L: []Term{recv.L[1]}}
		if len(info.path) > 0 {
			loc := ex.ptrLoc(rv)
			for _, f := range info.path {
				loc.Path += "." + f
			}
			rv = Val{T: info.target.Signature.Recv().Type(), L: loc.Idx, P: &loc}
		}
		env := ex.newEnv(st, st, fr)
		env.pkg = contractPkg(c.Func)
		names := contractParamNames(c, info.target.Signature, false)
		all := append([]Val{rv}, args...)
		if len(names) != len(all) {
			continue
		}
		for i, n := range names {
			env.vars[n] = all[i]
		}
		// only clauses that the interface contract does not already carry (labelled impl:)
		for i, r := range c.Requires {
			if !strings.HasPrefix(r.Label, "impl:") {
				continue
			}
			lbl := r.Label
			_ = i
			fr.oblige(st, "pre", fmt.Sprintf("%s/%s", funcKey(info.target), lbl), Implies(tagOK, safeEval(env, r)), 0)
		}
	}
}


// starAffects: can an object denoted by a value of static type t live in heap h?
// starAffectsLoc: like starAffects, but a pointer into the interior of an object
// (&x.f) denotes the heaps of x below the path .f.
func (P *Prog) starAffectsLoc(h *HeapInfo, t types.Type, loc *Loc) bool {
	if loc != nil && loc.Fam == "H" && loc.Path != "" && strings.HasPrefix(h.Name, "H$") {
		rest := h.Name[2:]
		i := strings.Index(rest, "$")
		if i >= 0 {
			root, path := rest[:i], rest[i+1:]
			return root == loc.Root && (path == loc.Path || strings.HasPrefix(path, loc.Path+"."))
		}
	}
	return P.starAffects(h, t)
}

func (P *Prog) starAffects(h *HeapInfo, t types.Type) bool {
	if t == nil || !strings.HasPrefix(h.Name, "H$") {
		return true
	}
	rest := h.Name[2:]
	i := strings.Index(rest, "$")
	if i < 0 {
		return true
	}
	root := P.lookupNamedType(rest[:i])
	if root == nil {
		return true
	}
	switch u := under(t).(type) {
	case *types.Interface:
		return types.Implements(root, u) || types.Implements(types.NewPointer(root), u)
	case *types.Pointer:
		return typeName(u.Elem()) == rest[:i]
	}
	return true
}
